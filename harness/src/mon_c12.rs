//! C12 — PKE and encrypted-header layers round-trip and authenticate.

use serde_json::json;

use cosmian_crypto_core::Aes256Gcm;

use crate::{
    real::{self, *},
    report::{Finding, Stats},
    rng::{fnv, Rng},
};

pub struct Fixture {
    pub cc: Covercrypt,
    pub msk: MasterSecretKey,
    pub mpk: MasterPublicKey,
    /// (label, key, authorized for classic target, authorized for hybrid target)
    pub keys: Vec<(&'static str, UserSecretKey, bool, bool)>,
    pub classic_ap: AccessPolicy,
    pub hybrid_ap: AccessPolicy,
}

/// D (anarchy): A classic, B classic; H (hierarchy): L classic < T hybridized.
pub fn fixture() -> Option<Fixture> {
    let cc = Covercrypt::default();
    let (mut msk, _) = call(|| cc.setup()).ok()?;
    let st = &mut msk.access_structure;
    st.add_anarchy("D".into()).ok()?;
    st.add_hierarchy("H".into()).ok()?;
    st.add_attribute(QualifiedAttribute::new("D", "A"), hint(false), None).ok()?;
    st.add_attribute(QualifiedAttribute::new("D", "B"), hint(false), None).ok()?;
    st.add_attribute(QualifiedAttribute::new("H", "L"), hint(false), None).ok()?;
    st.add_attribute(QualifiedAttribute::new("H", "T"), hint(true), Some("L")).ok()?;
    let mpk = call(|| cc.update_msk(&mut msk)).ok()?;
    let mut keys = vec![];
    for (label, pol, c, h) in [
        ("authorized(D::A && H::T)", "D::A && H::T", true, true),
        ("low(D::A && H::L)", "D::A && H::L", true, false),
        ("unauthorized(D::B && H::L)", "D::B && H::L", false, false),
        ("star(*)", "*", true, true),
    ] {
        let ap = AccessPolicy::parse(pol).ok()?;
        keys.push((label, call(|| cc.generate_user_secret_key(&mut msk, &ap)).ok()?, c, h));
    }
    Some(Fixture {
        cc,
        msk,
        mpk,
        keys,
        classic_ap: AccessPolicy::parse("D::A && H::L").ok()?,
        hybrid_ap: AccessPolicy::parse("D::A && H::T").ok()?,
    })
}

fn fail(st: &mut Stats, sig: &str, detail: String) {
    st.findings.push(Finding {
        prop: "C12".into(),
        signature: format!("C12:{sig}"),
        detail,
        replay: json!({"monitor": "c12"}),
    });
}

fn pke_encrypt(fx: &Fixture, ap: &AccessPolicy, ptx: &[u8]) -> Result<(XEnc, Vec<u8>), Error> {
    <Covercrypt as PkeAc<{ Aes256Gcm::KEY_LENGTH }, Aes256Gcm>>::encrypt(&fx.cc, &fx.mpk, ap, ptx)
}

fn pke_decrypt(fx: &Fixture, usk: &UserSecretKey, ctx: &(XEnc, Vec<u8>)) -> Result<Option<zeroize::Zeroizing<Vec<u8>>>, Error> {
    <Covercrypt as PkeAc<{ Aes256Gcm::KEY_LENGTH }, Aes256Gcm>>::decrypt(&fx.cc, usk, ctx)
}

fn pke_cases(fx: &Fixture, st: &mut Stats, rng: &mut Rng, lens: &[usize], deep: bool) {
    for (flavour, ap) in [("classic", &fx.classic_ap), ("hybridized", &fx.hybrid_ap)] {
        for &len in lens {
            let ptx = rng.bytes(len);
            let ctx = match call(|| pke_encrypt(fx, ap, &ptx)) {
                Out::Ok(c) => c,
                o => {
                    fail(st, &format!("pke-encrypt-fails:{flavour}"), format!("len {len}: {}", o.describe()));
                    continue;
                }
            };
            st.bump("pke_encryptions");
            if ctx.1.len() != len + 12 + 16 {
                fail(st, "pke-ciphertext-size", format!("plaintext {len} bytes → DEM part {} bytes (expected nonce 12 + len + tag 16)", ctx.1.len()));
            }
            // the encapsulation travels through bytes
            let ctx = match ser(&ctx.0).ok().and_then(|b| de::<XEnc>(&b).ok()) {
                Some(e) => (e, ctx.1),
                None => {
                    fail(st, "pke-encapsulation-roundtrip", "XEnc part cannot be round-tripped".into());
                    continue;
                }
            };
            for (label, usk, c_ok, h_ok) in &fx.keys {
                let authorized = if flavour == "classic" { *c_ok } else { *h_ok };
                let out = call(|| pke_decrypt(fx, usk, &ctx));
                st.bump("pke_decryptions");
                match (authorized, out) {
                    (true, Out::Ok(Some(p))) if p.as_slice() == ptx.as_slice() => {}
                    (false, Out::Ok(None)) => {}
                    (a, o) => {
                        let what = match &o {
                            Out::Ok(Some(_)) => "Some(plaintext that differs or should not be there)".to_string(),
                            Out::Ok(None) => "None".to_string(),
                            x => x.describe(),
                        };
                        fail(
                            st,
                            &format!("pke-decrypt:{}:{flavour}", if a { "authorized-key-fails" } else { "unauthorized-key-not-refused" }),
                            format!("key {label}, plaintext {len} bytes: got {what}"),
                        );
                    }
                }
            }
            st.shapes.insert(fnv(format!("pke|{flavour}|{len}").as_bytes()));
            // truncations and alterations of the DEM part (authorized key)
            if len <= 80 || deep {
                let usk = &fx.keys[0].1;
                let cuts: Vec<usize> = if ctx.1.len() <= 160 { (0..ctx.1.len()).collect() } else { (0..40).chain(ctx.1.len() - 40..ctx.1.len()).collect() };
                for cut in cuts {
                    let t = (ctx.0.clone(), ctx.1[..cut].to_vec());
                    let out = call(|| pke_decrypt(fx, usk, &t));
                    st.bump("pke_truncations");
                    if !matches!(out, Out::Err(_)) {
                        fail(st, &format!("pke-truncated-ciphertext-accepted:{}", if out.is_panic() { "panic" } else { "ok" }), format!("plaintext {len}, DEM part cut at {cut}/{}: {}", ctx.1.len(), out.describe()));
                    }
                }
                let bits: Vec<usize> = if ctx.1.len() <= 64 { (0..ctx.1.len() * 8).collect() } else { (0..96).chain((ctx.1.len() - 17) * 8..ctx.1.len() * 8).chain((0..64).map(|_| rng.below(ctx.1.len() * 8))).collect() };
                for bit in bits {
                    let mut t = (ctx.0.clone(), ctx.1.clone());
                    t.1[bit / 8] ^= 1 << (bit % 8);
                    let out = call(|| pke_decrypt(fx, usk, &t));
                    st.bump("pke_bitflips");
                    if !matches!(out, Out::Err(_)) {
                        fail(st, &format!("pke-altered-ciphertext-accepted:{}", if out.is_panic() { "panic" } else { "ok" }), format!("plaintext {len}, bit {bit} flipped: {}", out.describe()));
                    }
                }
            }
        }
    }
}

fn aad_same(a: Option<&[u8]>, b: Option<&[u8]>) -> bool {
    a.unwrap_or(&[]) == b.unwrap_or(&[])
}

fn header_cases(fx: &Fixture, st: &mut Stats, rng: &mut Rng, meta_lens: &[Option<usize>]) {
    let aads: Vec<Option<Vec<u8>>> = vec![None, Some(vec![]), Some(b"x".to_vec()), Some(b"y".to_vec()), Some(rng.bytes(33))];
    for (flavour, ap) in [("classic", &fx.classic_ap), ("hybridized", &fx.hybrid_ap)] {
        for ml in meta_lens {
            let meta: Option<Vec<u8>> = ml.map(|l| rng.bytes(l));
            for gen_aad in &aads {
                let out = call(|| EncryptedHeader::generate(&fx.cc, &fx.mpk, ap, meta.as_deref(), gen_aad.as_deref()));
                let (secret, header) = match out {
                    Out::Ok(x) => x,
                    o => {
                        fail(st, "header-generate-fails", o.describe());
                        continue;
                    }
                };
                st.bump("headers_generated");
                // through bytes
                let header = match ser(&header).ok().and_then(|b| de::<EncryptedHeader>(&b).ok()) {
                    Some(h) => h,
                    None => {
                        fail(st, "header-roundtrip", "header cannot be round-tripped".into());
                        continue;
                    }
                };
                for dec_aad in &aads {
                    for (label, usk, c_ok, h_ok) in &fx.keys {
                        let authorized = if flavour == "classic" { *c_ok } else { *h_ok };
                        let out = call(|| header.decrypt(&fx.cc, usk, dec_aad.as_deref()));
                        st.bump("header_decryptions");
                        let same = aad_same(gen_aad.as_deref(), dec_aad.as_deref());
                        let class = format!(
                            "meta={}|gen_aad={}|dec_aad={}|{}",
                            match ml { None => "absent".into(), Some(0) => "empty".into(), Some(l) => format!("{l}") },
                            gen_aad.as_ref().map_or("absent".into(), |a| a.len().to_string()),
                            dec_aad.as_ref().map_or("absent".into(), |a| a.len().to_string()),
                            if authorized { "authorized" } else { "unauthorized" }
                        );
                        st.shapes.insert(fnv(format!("hdr|{flavour}|{class}").as_bytes()));
                        match out {
                            Out::Panic(m) => fail(st, "header-decrypt-panics", format!("{label} {class}: {m}")),
                            Out::Ok(None) => {
                                if authorized {
                                    fail(st, &format!("header-authorized-key-refused:{flavour}"), format!("{label} {class}"));
                                }
                            }
                            Out::Ok(Some(clear)) => {
                                if !authorized {
                                    fail(st, &format!("header-unauthorized-key-opens:{flavour}"), format!("{label} {class}"));
                                } else if meta.is_some() && !same {
                                    fail(st, "header-differing-aad-accepted", format!("{label} {class}"));
                                } else {
                                    if real::secret_bytes(&clear.secret) != real::secret_bytes(&secret) {
                                        fail(st, "header-secret-differs", format!("{label} {class}"));
                                    }
                                    let got = clear.metadata.clone().unwrap_or_default();
                                    let want = meta.clone().unwrap_or_default();
                                    if got != want {
                                        fail(st, "header-metadata-differs", format!("{label} {class}: {} bytes back, {} in", got.len(), want.len()));
                                    }
                                    // cleartext header round trip (absent ≡ empty)
                                    match ser(&clear).ok().and_then(|b| de::<CleartextHeader>(&b).ok()) {
                                        Some(c2) => {
                                            if c2.metadata.clone().unwrap_or_default() != got || real::secret_bytes(&c2.secret) != real::secret_bytes(&clear.secret) {
                                                fail(st, "cleartext-header-roundtrip-differs", class.clone());
                                            }
                                        }
                                        None => fail(st, "cleartext-header-roundtrip-fails", class.clone()),
                                    }
                                }
                            }
                            Out::Err(_) => {
                                // an error is required when the AAD differs (metadata present); it is
                                // wrong when everything matches
                                if authorized && (same || meta.is_none()) {
                                    fail(st, "header-decrypt-fails-on-valid-input", format!("{label} {class}"));
                                }
                            }
                        }
                    }
                }
                // truncation of the *serialized* header: it must not parse to something an
                // authorized key opens
                if let (Some(bytes), true, true) = (ser(&header).ok(), gen_aad.is_none(), meta.as_ref().map_or(false, |m| m.len() <= 40)) {
                    let usk = &fx.keys[0].1;
                    for cut in 0..bytes.len() {
                        st.bump("header_truncations");
                        match de::<EncryptedHeader>(&bytes[..cut]) {
                            Out::Err(_) => {}
                            Out::Panic(m) => fail(st, "serialized-header-truncation-panics", format!("cut {cut}/{}: {m}", bytes.len())),
                            Out::Ok(h2) => {
                                let out = call(|| h2.decrypt(&fx.cc, usk, None));
                                if matches!(out, Out::Ok(Some(_))) || out.is_panic() {
                                    fail(st, "truncated-serialized-header-accepted", format!("cut {cut}/{} ({flavour}, metadata {:?}): {}", bytes.len(), ml, if out.is_panic() { out.describe() } else { "decrypts for an authorized key".to_string() }));
                                }
                            }
                        }
                    }
                }
                // alteration of the *structure* of the serialized header (framing stays valid): trap
                // list shortened / emptied / extended, encapsulation list emptied or doubled. Whatever
                // parses must be refused (error or None) by every key, never panic, never open.
                if let (Some(Ok(w)), true) = (ser(&header).ok().map(|b| crate::wire::WHeader::parse(&b)), gen_aad.is_none()) {
                    let mut variants: Vec<(&str, crate::wire::WHeader)> = vec![];
                    let mut m = w.clone();
                    m.enc.traps.pop();
                    variants.push(("last-trap-removed", m));
                    let mut m = w.clone();
                    if !m.enc.traps.is_empty() {
                        m.enc.traps.remove(0);
                    }
                    variants.push(("first-trap-removed", m));
                    let mut m = w.clone();
                    m.enc.traps.clear();
                    variants.push(("no-trap", m));
                    let mut m = w.clone();
                    if let Some(t) = m.enc.traps.last().cloned() {
                        m.enc.traps.push(t);
                    }
                    variants.push(("trap-appended", m));
                    let mut m = w.clone();
                    m.enc.encs.clear();
                    variants.push(("no-encapsulation", m));
                    let mut m = w.clone();
                    let again = m.enc.encs.clone();
                    m.enc.encs.extend(again);
                    variants.push(("encapsulations-doubled", m));
                    for (name, v) in variants {
                        st.bump("header_structural_alterations");
                        let bytes = v.write();
                        match de::<EncryptedHeader>(&bytes) {
                            Out::Err(_) => {}
                            Out::Panic(m) => fail(st, &format!("altered-serialized-header-panics:deserialize:{name}"), m),
                            Out::Ok(h2) => {
                                for (label, usk, _, _) in &fx.keys {
                                    let out = call(|| h2.decrypt(&fx.cc, usk, None));
                                    match out {
                                        Out::Panic(m) => {
                                            fail(st, &format!("altered-serialized-header-panics:decrypt:{name}"), format!("key {label} ({flavour}): {m}"));
                                            break;
                                        }
                                        Out::Ok(Some(_)) if name != "encapsulations-doubled" => {
                                            fail(st, &format!("altered-serialized-header-accepted:{name}"), format!("key {label} ({flavour}) decrypts it"));
                                            break;
                                        }
                                        _ => {}
                                    }
                                }
                            }
                        }
                    }
                }
                // truncation / alteration of the encrypted metadata
                if let (Some(em), true) = (&header.encrypted_metadata, gen_aad.is_none()) {
                    let usk = &fx.keys[0].1;
                    let cuts: Vec<usize> = if em.len() <= 120 { (0..em.len()).collect() } else { (0..30).chain(em.len() - 30..em.len()).collect() };
                    for cut in cuts {
                        let h = EncryptedHeader { encapsulation: header.encapsulation.clone(), encrypted_metadata: Some(em[..cut].to_vec()) };
                        let out = call(|| h.decrypt(&fx.cc, usk, None));
                        st.bump("header_truncations");
                        if !matches!(out, Out::Err(_)) {
                            fail(st, &format!("header-truncated-metadata-accepted:{}", if out.is_panic() { "panic" } else { "ok" }), format!("cut {cut}/{}: {}", em.len(), out.describe()));
                        }
                    }
                    for _ in 0..48 {
                        let bit = rng.below(em.len() * 8);
                        let mut m = em.clone();
                        m[bit / 8] ^= 1 << (bit % 8);
                        let h = EncryptedHeader { encapsulation: header.encapsulation.clone(), encrypted_metadata: Some(m) };
                        let out = call(|| h.decrypt(&fx.cc, usk, None));
                        st.bump("header_bitflips");
                        if !matches!(out, Out::Err(_)) {
                            fail(st, "header-altered-metadata-accepted", format!("bit {bit}: {}", out.describe()));
                        }
                    }
                }
            }
        }
    }
}

pub fn run(tier: &str, seed: u64) -> Stats {
    let mut st = Stats::default();
    let Some(fx) = fixture() else {
        st.inconclusive.push("fixture setup failed".into());
        return st;
    };
    let mut rng = Rng::new(seed);
    let mut lens: Vec<usize> = (0..=80).collect();
    lens.extend([255, 256, 4095, 4096, 65537, (1 << 20) - 1, 1 << 20, (1 << 20) + 1, (1 << 21) + 5]);
    let mut metas: Vec<Option<usize>> = vec![None, Some(0)];
    metas.extend((1..=40).step_by(if tier == "thorough" { 1 } else { 3 }).map(Some));
    metas.push(Some(1000));
    // lengths around the LEB128 boundaries of the serialized length prefix (nonce 12 + tag 16 added)
    for l in [99usize, 100, 101, 127, 128, 129, 16355, 16356, 16357, 16383, 16384, 16385] {
        metas.push(Some(l));
    }
    // ... and around 1 MiB (nonce and tag included or not)
    for l in [(1usize << 16) - 28, 1 << 16, (1 << 20) - 29, (1 << 20) - 28, (1 << 20) - 27, (1 << 20) - 1, 1 << 20] {
        metas.push(Some(l));
    }
    let rounds = if tier == "thorough" { 6 } else { 1 };
    // the two layers are independent: one thread each (plus one per round in the thorough tier)
    let fx = std::sync::Arc::new(fx);
    let mut hs = vec![];
    for r in 0..rounds {
        for layer in 0..2 {
            let fx = fx.clone();
            let lens = lens.clone();
            let metas = metas.clone();
            let mut rng = rng.fork(r as u64 * 2 + layer);
            let deep = tier == "thorough";
            hs.push(std::thread::spawn(move || {
                let mut st = Stats::default();
                // each thread gets its own instance for the RNG (calls hold its lock throughout)
                let local = Fixture {
                    cc: Covercrypt::default(),
                    msk: de::<MasterSecretKey>(&ser(&fx.msk).ok().unwrap()).ok().unwrap(),
                    mpk: de::<MasterPublicKey>(&ser(&fx.mpk).ok().unwrap()).ok().unwrap(),
                    keys: fx.keys.iter().map(|k| (k.0, k.1.clone(), k.2, k.3)).collect(),
                    classic_ap: fx.classic_ap.clone(),
                    hybrid_ap: fx.hybrid_ap.clone(),
                };
                if layer == 0 {
                    pke_cases(&local, &mut st, &mut rng, &lens, deep);
                } else {
                    header_cases(&local, &mut st, &mut rng, &metas);
                }
                st
            }));
        }
    }
    for h in hs {
        match h.join() {
            Ok(s) => st.merge(s),
            Err(_) => st.inconclusive.push("worker died".into()),
        }
    }
    st.sample(json!({"pke_plaintext_lengths": "0..=80,255,256,4095,4096,65537,2^20-1,2^20,2^20+1,2^21+5", "metadata_lengths": format!("{metas:?}"), "aad": "absent, empty, 'x', 'y', 33 random bytes; all 5x5 (generate, decrypt) pairs", "keys": fx.keys.iter().map(|k| k.0).collect::<Vec<_>>()}), 3);
    let mut seen = std::collections::BTreeSet::new();
    st.findings.retain(|f| seen.insert(f.signature.clone()));
    st
}
