//! Tiny concurrent scenario for Miri (C19, thorough tier): 2 threads share one instance.
//! Everything is kept minimal because Miri interprets the whole crypto stack (~seconds per call).
use std::sync::Arc;

use cosmian_cover_crypt::{api::Covercrypt, traits::KemAc, traits::PkeAc, AccessPolicy, EncryptedHeader};
use cosmian_crypto_core::Aes256Gcm;

fn main() {
    let cc = Arc::new(Covercrypt::default());
    let (mut msk, mpk) = cc.setup().expect("setup");
    let ap = AccessPolicy::parse("*").expect("policy");
    let usk = Arc::new(cc.generate_user_secret_key(&mut msk, &ap).expect("keygen"));
    let mpk = Arc::new(mpk);
    let ap = Arc::new(ap);
    let mut hs = vec![];
    for t in 0..2u8 {
        let (cc, mpk, usk, ap) = (cc.clone(), mpk.clone(), usk.clone(), ap.clone());
        hs.push(std::thread::spawn(move || {
            if t == 0 {
                // encaps + decaps
                let (s, e) = cc.encaps(&mpk, &ap).expect("encaps");
                let d = cc.decaps(&usk, &e).expect("decaps").expect("authorized");
                assert_eq!(&*s, &*d, "decaps differs from its sequential meaning");
                (s.to_vec(), 2u32)
            } else {
                // the two double-lock paths: PKE encrypt and header generation
                let c = <Covercrypt as PkeAc<{ Aes256Gcm::KEY_LENGTH }, Aes256Gcm>>::encrypt(&cc, &mpk, &ap, b"ptx").expect("encrypt");
                let p = <Covercrypt as PkeAc<{ Aes256Gcm::KEY_LENGTH }, Aes256Gcm>>::decrypt(&cc, &usk, &c).expect("decrypt").expect("authorized");
                assert_eq!(p.as_slice(), b"ptx");
                let (secret, h) = EncryptedHeader::generate(&cc, &mpk, &ap, Some(b"m"), None).expect("header");
                let clear = h.decrypt(&cc, &usk, None).expect("hdr decrypt").expect("authorized");
                assert_eq!(&*clear.secret, &*secret);
                (secret.to_vec(), 4u32)
            }
        }));
    }
    let mut ops = 0;
    let mut secrets = vec![];
    for h in hs {
        let (s, n) = h.join().expect("thread panicked");
        ops += n;
        secrets.push(s);
    }
    assert_ne!(secrets[0], secrets[1], "two threads produced the same secret");
    println!("MIRI-OK ops={ops}");
}
