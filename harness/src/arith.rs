//! Group arithmetic done in the harness, directly on the curve libraries (not through the crate
//! under test): used to check the tracing relation (C17).

#[cfg(feature = "cfg-a")]
mod imp {
    use cosmian_crypto_core::{R25519PrivateKey as Sc, R25519PublicKey as Pt};

    fn sc(b: &[u8]) -> Option<Sc> {
        let a: [u8; 32] = b.try_into().ok()?;
        Sc::try_from_bytes(a).ok()
    }

    /// Σ aᵢ·tᵢ as scalar bytes.
    pub fn inner_product(a: &[Vec<u8>], t: &[Vec<u8>]) -> Option<Vec<u8>> {
        if a.len() != t.len() {
            return None;
        }
        let mut acc = Sc::zero();
        for (x, y) in a.iter().zip(t) {
            let p = &sc(x)? * &sc(y)?;
            acc = &acc + &p;
        }
        Some(acc.to_bytes().to_vec())
    }

    /// t·G as point bytes.
    pub fn base_mul(t: &[u8]) -> Option<Vec<u8>> {
        Some(Pt::from(&sc(t)?).to_bytes().to_vec())
    }

    pub fn scalar_is_canonical(b: &[u8]) -> bool {
        sc(b).is_some()
    }
}

#[cfg(feature = "cfg-b")]
mod imp {
    use elliptic_curve::{group::GroupEncoding, PrimeField};
    use p256::{ProjectivePoint, Scalar};

    fn sc(b: &[u8]) -> Option<Scalar> {
        let a: [u8; 32] = b.try_into().ok()?;
        Scalar::from_repr(a.into()).into_option()
    }

    pub fn inner_product(a: &[Vec<u8>], t: &[Vec<u8>]) -> Option<Vec<u8>> {
        if a.len() != t.len() {
            return None;
        }
        let mut acc = Scalar::ZERO;
        for (x, y) in a.iter().zip(t) {
            acc += sc(x)? * sc(y)?;
        }
        Some(acc.to_repr().to_vec())
    }

    pub fn base_mul(t: &[u8]) -> Option<Vec<u8>> {
        Some((ProjectivePoint::GENERATOR * sc(t)?).to_bytes().to_vec())
    }

    pub fn scalar_is_canonical(b: &[u8]) -> bool {
        sc(b).is_some()
    }
}

pub use imp::*;
