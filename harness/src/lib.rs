pub mod engine;
pub mod model;
pub mod mon_hist;
pub mod real;
pub mod report;
pub mod rng;
pub mod wire;
