//! C14 — deserializing or using untrusted bytes never crashes, hangs or over-allocates
//! (fault enumeration in isolated worker processes).
//!
//! parent:  builds the base objects, writes them to a file, spawns one worker process per shard,
//!          watches progress files; a dead worker identifies its input (progress index), which
//!          becomes a finding, and the worker is restarted after it. A worker whose index stands
//!          still while its CPU time advances by more than the budget is killed: a hang.
//! worker:  for each mutant of its shard: counting-allocator window, iterator-step ceiling (hook),
//!          thread-CPU clock, `catch_unwind` around deserialization and around every use of the
//!          parsed value (decapsulation, header decryption, public accessors).

use std::{
    io::Write,
    path::Path,
    process::{Command, Stdio},
    time::{Duration, Instant},
};

use serde_json::{json, Value};

use crate::{
    alloc,
    real::*,
    report::{Finding, Stats},
    rng::{fnv, Rng},
    wire::{self, leb_encode, Field, WCleartext, WHeader, WMpk, WMsk, WStruct, WUsk, WXenc},
};

pub const KINDS: &[&str] = &["xenc", "header", "cleartext", "usk", "mpk", "msk", "structure"];

#[derive(Clone)]
pub struct Bases {
    /// (kind, label, bytes)
    pub objs: Vec<(String, String, Vec<u8>)>,
    /// valid helpers used when *using* a mutant
    pub usks: Vec<Vec<u8>>,
    pub encs: Vec<Vec<u8>>,
    pub msk: Vec<u8>,
}

impl Bases {
    fn to_json(&self) -> Value {
        json!({
            "objs": self.objs.iter().map(|(k, l, b)| json!([k, l, wire::hex(b)])).collect::<Vec<_>>(),
            "usks": self.usks.iter().map(|b| wire::hex(b)).collect::<Vec<_>>(),
            "encs": self.encs.iter().map(|b| wire::hex(b)).collect::<Vec<_>>(),
            "msk": wire::hex(&self.msk),
        })
    }
    fn from_json(v: &Value) -> Option<Self> {
        let hx = |x: &Value| x.as_str().and_then(|s| wire::unhex(s).ok());
        Some(Self {
            objs: v["objs"].as_array()?.iter().filter_map(|e| Some((e[0].as_str()?.to_string(), e[1].as_str()?.to_string(), hx(&e[2])?))).collect(),
            usks: v["usks"].as_array()?.iter().filter_map(hx).collect(),
            encs: v["encs"].as_array()?.iter().filter_map(hx).collect(),
            msk: hx(&v["msk"])?,
        })
    }
}

pub fn build_bases() -> Option<Bases> {
    let cc = Covercrypt::default();
    let (mut msk, _) = call(|| cc.setup()).ok()?;
    {
        let s = &mut msk.access_structure;
        s.add_anarchy("D".into()).ok()?;
        s.add_hierarchy("Héra".into()).ok()?;
        s.add_attribute(QualifiedAttribute::new("D", "A"), hint(false), None).ok()?;
        s.add_attribute(QualifiedAttribute::new("D", "B"), hint(false), None).ok()?;
        s.add_attribute(QualifiedAttribute::new("Héra", "L"), hint(false), None).ok()?;
        s.add_attribute(QualifiedAttribute::new("Héra", "T"), hint(true), Some("L")).ok()?;
    }
    call(|| cc.update_msk(&mut msk)).ok()?;
    let p = |s: &str| AccessPolicy::parse(s).unwrap();
    let mut usk1 = call(|| cc.generate_user_secret_key(&mut msk, &p("D::A && Héra::L"))).ok()?;
    let usk2 = call(|| cc.generate_user_secret_key(&mut msk, &p("D::B && Héra::T"))).ok()?;
    // several revisions
    call(|| cc.rekey(&mut msk, &p("D::A"))).ok()?;
    call(|| cc.refresh_usk(&mut msk, &mut usk1, true)).ok()?;
    let mpk = call(|| cc.rekey(&mut msk, &p("D::A && Héra::L"))).ok()?;
    call(|| cc.refresh_usk(&mut msk, &mut usk1, true)).ok()?;
    msk.access_structure.disable_attribute(&QualifiedAttribute::new("D", "B")).ok()?;
    let mpk2 = call(|| cc.update_msk(&mut msk)).ok()?;
    let (_, e1) = call(|| cc.encaps(&mpk, &p("D::A && Héra::L || D::B"))).ok()?;
    let (_, e2) = call(|| cc.encaps(&mpk, &p("D::B && Héra::T"))).ok()?;
    let (_, h1) = call(|| EncryptedHeader::generate(&cc, &mpk, &p("D::A && Héra::L"), Some(b"some metadata"), Some(b"aad"))).ok()?;
    let (_, h2) = call(|| EncryptedHeader::generate(&cc, &mpk, &p("D::B && Héra::T"), None, None)).ok()?;
    let clear = call(|| h1.decrypt(&cc, &usk1, Some(b"aad"))).ok()??;
    let mut objs = vec![];
    objs.push(("xenc".to_string(), "classic-2-targets".to_string(), ser(&e1).ok()?));
    objs.push(("xenc".to_string(), "hybridized-1-target".to_string(), ser(&e2).ok()?));
    objs.push(("header".to_string(), "classic+metadata".to_string(), ser(&h1).ok()?));
    objs.push(("header".to_string(), "hybridized-no-metadata".to_string(), ser(&h2).ok()?));
    objs.push(("cleartext".to_string(), "with-metadata".to_string(), ser(&clear).ok()?));
    objs.push(("usk".to_string(), "classic-3-revisions".to_string(), ser(&usk1).ok()?));
    objs.push(("usk".to_string(), "hybridized".to_string(), ser(&usk2).ok()?));
    objs.push(("mpk".to_string(), "all-activated".to_string(), ser(&mpk).ok()?));
    objs.push(("mpk".to_string(), "one-disabled".to_string(), ser(&mpk2).ok()?));
    objs.push(("msk".to_string(), "3-revisions-disabled-2-users".to_string(), ser(&msk).ok()?));
    objs.push(("structure".to_string(), "2-dimensions".to_string(), ser(&msk.access_structure).ok()?));
    Some(Bases {
        objs,
        usks: vec![ser(&usk1).ok()?, ser(&usk2).ok()?],
        encs: vec![ser(&e1).ok()?, ser(&e2).ok()?],
        msk: ser(&msk).ok()?,
    })
}

fn fields_of(kind: &str, b: &[u8]) -> Vec<Field> {
    match kind {
        "xenc" => WXenc::parse_fields(b).map(|x| x.1),
        "header" => WHeader::parse_fields(b).map(|x| x.1),
        "cleartext" => WCleartext::parse_fields(b).map(|x| x.1),
        "usk" => WUsk::parse_fields(b).map(|x| x.1),
        "mpk" => WMpk::parse_fields(b).map(|x| x.1),
        "msk" => WMsk::parse_fields(b).map(|x| x.1),
        _ => {
            let mut c = wire::Cur::new(b);
            WStruct::read(&mut c).map(|_| c.fields)
        }
    }
    .unwrap_or_default()
}

const BOUNDARY: &[u64] = &[0, 1, 127, 128, 1 << 16, (1 << 32) - 1, 1 << 32, (1 << 63) - 1, 1 << 63, u64::MAX];

/// Deterministic list of mutants of one base object: (operator, bytes).
pub fn mutants(kind: &str, base: &[u8], seed: u64, thorough: bool) -> Vec<(String, Vec<u8>)> {
    let mut out = vec![];
    let n = base.len();
    // every truncation
    for cut in 0..n {
        out.push((format!("truncate@{cut}"), base[..cut].to_vec()));
    }
    // every byte × {^01, ^80, 00, FF, +1} (sampled stride for very large objects in the quick tier)
    let stride = if !thorough && n > 6000 { 3 } else { 1 };
    for i in (0..n).step_by(stride) {
        for (name, v) in [("xor01", base[i] ^ 1), ("xor80", base[i] ^ 0x80), ("zero", 0), ("ff", 0xff), ("inc", base[i].wrapping_add(1))] {
            if v != base[i] {
                let mut m = base.to_vec();
                m[i] = v;
                out.push((format!("byte-{name}@{i}"), m));
            }
        }
    }
    // every count / length / flag field × boundary values
    for f in fields_of(kind, base) {
        for v in BOUNDARY {
            if *v == f.value {
                continue;
            }
            let mut enc = vec![];
            leb_encode(*v, &mut enc);
            // natural re-encoding (the rest of the object shifts)
            let mut m = base[..f.off].to_vec();
            m.extend_from_slice(&enc);
            m.extend_from_slice(&base[f.off + f.len..]);
            out.push((format!("field-{}={v}", f.kind), m));
            // in place, keeping the field width (over-long / truncated LEB128)
            let mut m = base.to_vec();
            let mut padded = enc.clone();
            while padded.len() < f.len {
                let last = padded.len() - 1;
                padded[last] |= 0x80;
                padded.push(0);
            }
            m[f.off..f.off + f.len].copy_from_slice(&padded[..f.len]);
            if m != base {
                out.push((format!("field-inplace-{}={v}", f.kind), m));
            }
        }
    }
    // structure-aware mutants (correct framing, degenerate content): empty lists everywhere
    out.extend(structured(kind, base));
    // random strings and random splices
    let mut rng = Rng::new(seed ^ fnv(base));
    let n_rand = if thorough { 4000 } else { 600 };
    for i in 0..n_rand {
        let len = match i % 4 {
            0 => rng.below(16),
            1 => rng.below(200),
            _ => rng.below(4097),
        };
        let mut b = rng.bytes(len);
        if i % 3 == 0 && n > 8 {
            // keep a valid prefix: the parser gets further
            let k = rng.below(n.min(len + 1));
            b[..k.min(len)].copy_from_slice(&base[..k.min(len)]);
        }
        out.push((format!("random-{}", i % 4), b));
    }
    out
}

/// Large *valid* structures (many dimensions, many attributes): the number of rights they span
/// exceeds 2^24, 2^32, 2^64 — whatever a reader computes from the counts must not overflow.
fn large_structs(template: &WStruct, huge: bool) -> Vec<(String, WStruct)> {
    let mut out = vec![];
    let mut shapes = vec![(64usize, 1usize), (70, 1), (16, 15), (8, 255), (40, 2), (2, 300), (24, 1), (33, 3)];
    if huge {
        // hundreds of thousands of attributes in one dimension (megabytes of input): parsing must
        // stay linear — the 5 s CPU ceiling is ~20x the honest cost
        shapes.extend([(1, 400_000), (2, 120_000)]);
    }
    for (nd, na) in shapes {
        let mut id = 0u64;
        let mut dims = vec![];
        for d in 0..nd {
            let mut attrs = vec![];
            for a in 0..na {
                attrs.push(wire::WAttr { name: format!("a{a}").into_bytes(), id, hint: (a % 2) as u64, status: 0 });
                id += 1;
            }
            dims.push(wire::WDim { name: format!("d{d}").into_bytes(), ordered: (d % 2) as u64, attrs });
        }
        let mut m = template.clone();
        m.dims = dims;
        if m.next_id.is_some() {
            m.next_id = Some(id);
        }
        out.push((format!("structured-large-valid-structure-{nd}x{na}"), m));
    }
    out
}

/// Mutants built through the wire writer: the framing stays valid, the content is degenerate.
fn structured(kind: &str, base: &[u8]) -> Vec<(String, Vec<u8>)> {
    let mut out: Vec<(String, Vec<u8>)> = vec![];
    let xenc_variants = |w: &WXenc| -> Vec<(String, WXenc)> {
        let mut v = vec![];
        let mut m = w.clone();
        m.traps.clear();
        v.push(("no-traps".to_string(), m));
        let mut m = w.clone();
        m.encs.clear();
        v.push(("no-entries".to_string(), m));
        let mut m = w.clone();
        m.traps.clear();
        m.encs.clear();
        v.push(("no-traps-no-entries".to_string(), m));
        let mut m = w.clone();
        m.traps.truncate(1);
        v.push(("one-trap".to_string(), m));
        let mut m = w.clone();
        let t = m.traps.clone();
        m.traps.extend(t);
        v.push(("doubled-traps".to_string(), m));
        v
    };
    match kind {
        "xenc" => {
            if let Ok(w) = WXenc::parse(base) {
                for (n, m) in xenc_variants(&w) {
                    out.push((format!("structured-{n}"), m.write()));
                }
            }
        }
        "header" => {
            if let Ok(w) = WHeader::parse(base) {
                for (n, m) in xenc_variants(&w.enc) {
                    out.push((format!("structured-{n}"), WHeader { enc: m, meta: w.meta.clone() }.write()));
                }
                let mut m = w.clone();
                m.meta = vec![0; 11];
                out.push(("structured-metadata-shorter-than-nonce".into(), m.write()));
                let mut m = w.clone();
                m.meta = vec![0; 12];
                out.push(("structured-metadata-nonce-only".into(), m.write()));
            }
        }
        "usk" => {
            if let Ok(w) = WUsk::parse(base) {
                let mut m = w.clone();
                m.id.clear();
                out.push(("structured-no-markers".into(), m.write()));
                let mut m = w.clone();
                m.ps.clear();
                out.push(("structured-no-tracing-points".into(), m.write()));
                let mut m = w.clone();
                m.chains.clear();
                out.push(("structured-no-chains".into(), m.write()));
                let mut m = w.clone();
                m.chains.clear();
                m.id.clear();
                m.ps.clear();
                m.sig = None;
                out.push(("structured-empty-key".into(), m.write()));
                let mut m = w.clone();
                for c in &mut m.chains {
                    c.1.clear();
                }
                out.push(("structured-all-chains-empty".into(), m.write()));
                let mut m = w.clone();
                m.chains.truncate(1);
                m.chains[0].1.truncate(1);
                out.push(("structured-single-secret".into(), m.write()));
                let mut m = w.clone();
                m.id.truncate(1);
                out.push(("structured-one-marker".into(), m.write()));
                let mut m = w.clone();
                let i = m.id.clone();
                m.id.extend(i);
                out.push(("structured-doubled-markers".into(), m.write()));
                let mut m = w.clone();
                m.sig = None;
                out.push(("structured-no-signature".into(), m.write()));
                // very uneven chains
                let mut m = w.clone();
                if let Some(s) = m.chains.first().and_then(|c| c.1.first().cloned()) {
                    for _ in 0..40 {
                        m.chains[0].1.push(s.clone());
                    }
                    out.push(("structured-one-long-chain".into(), m.write()));
                }
            }
        }
        "mpk" => {
            if let Ok(w) = WMpk::parse(base) {
                let mut m = w.clone();
                m.tpk.clear();
                out.push(("structured-no-tracing-points".into(), m.write()));
                let mut m = w.clone();
                m.keys.clear();
                out.push(("structured-no-keys".into(), m.write()));
                let mut m = w.clone();
                m.structure.dims.clear();
                out.push(("structured-empty-structure".into(), m.write()));
                for (name, st) in large_structs(&w.structure, false) {
                    let mut m = w.clone();
                    m.structure = st;
                    out.push((name, m.write()));
                }
            }
        }
        "msk" => {
            if let Ok(w) = WMsk::parse(base) {
                let mut m = w.clone();
                m.tracers.clear();
                out.push(("structured-no-tracers".into(), m.write()));
                let mut m = w.clone();
                m.users.clear();
                out.push(("structured-no-users".into(), m.write()));
                let mut m = w.clone();
                m.users.push(vec![]);
                out.push(("structured-user-without-markers".into(), m.write()));
                let mut m = w.clone();
                m.chains.clear();
                out.push(("structured-no-chains".into(), m.write()));
                let mut m = w.clone();
                for c in &mut m.chains {
                    c.1.clear();
                }
                out.push(("structured-all-chains-empty".into(), m.write()));
                let mut m = w.clone();
                m.structure.dims.clear();
                out.push(("structured-empty-structure".into(), m.write()));
                for (name, st) in large_structs(&w.structure, false) {
                    let mut m = w.clone();
                    m.structure = st;
                    out.push((name, m.write()));
                }
            }
        }
        "structure" => {
            if let Ok(w) = WStruct::parse(base) {
                for (name, m) in large_structs(&w, true) {
                    let mut o = vec![];
                    m.write(&mut o);
                    out.push((name, o));
                }
                let mut m = w.clone();
                m.dims.clear();
                out.push(("structured-no-dimensions".into(), {
                    let mut o = vec![];
                    m.write(&mut o);
                    o
                }));
                let mut m = w.clone();
                for d in &mut m.dims {
                    d.attrs.clear();
                }
                out.push(("structured-dimensions-without-attributes".into(), {
                    let mut o = vec![];
                    m.write(&mut o);
                    o
                }));
                let mut m = w.clone();
                for d in &mut m.dims {
                    for a in &mut d.attrs {
                        a.id = u64::MAX;
                    }
                }
                out.push(("structured-max-ids".into(), {
                    let mut o = vec![];
                    m.write(&mut o);
                    o
                }));
                let mut m = w.clone();
                m.version = 0;
                m.next_id = None;
                out.push(("structured-version-0".into(), {
                    let mut o = vec![];
                    m.write(&mut o);
                    o
                }));
            }
        }
        _ => {}
    }
    out
}

fn op_class(op: &str) -> String {
    op.split('@').next().unwrap_or(op).split('=').next().unwrap_or(op).to_string()
}

struct Helpers {
    cc: Covercrypt,
    usks: Vec<UserSecretKey>,
    encs: Vec<XEnc>,
}

/// Runs one mutant; returns (parsed?, problems).
fn run_mutant(kind: &str, bytes: &[u8], h: &Helpers, st: &mut Stats) -> Vec<(String, String)> {
    let mut problems: Vec<(String, String)> = vec![];
    let bound = 64 * bytes.len() + (1 << 20);
    #[cfg(feature = "hooks")]
    cosmian_cover_crypt::verif_hooks::reset_steps(Some(10_000 + 100 * bytes.len() as u64));
    let live0 = alloc::window_start();
    let cpu0 = alloc::thread_cpu_s();
    macro_rules! guard {
        ($name:expr, $e:expr) => {{
            match call_inf(|| $e) {
                Out::Panic(m) => {
                    problems.push((format!("panic:{kind}:{}", $name), m));
                    None
                }
                Out::Ok(v) => Some(v),
                Out::Err(_) => None,
            }
        }};
    }
    let mut parsed = false;
    match kind {
        "xenc" => {
            if let Some(Ok(x)) = guard!("deserialize", XEnc::deserialize(bytes)) {
                parsed = true;
                guard!("tracing_level", x.tracing_level());
                guard!("count", x.count());
                for u in &h.usks {
                    guard!("decaps(valid usk, mutant)", h.cc.decaps(u, &x).map(|_| ()));
                }
                guard!("serialize", x.serialize().map(|_| ()));
            }
        }
        "header" => {
            if let Some(Ok(x)) = guard!("deserialize", EncryptedHeader::deserialize(bytes)) {
                parsed = true;
                for u in &h.usks {
                    guard!("header.decrypt", x.decrypt(&h.cc, u, Some(b"aad")).map(|_| ()));
                    guard!("header.decrypt(no aad)", x.decrypt(&h.cc, u, None).map(|_| ()));
                }
                guard!("encapsulation.tracing_level", x.encapsulation.tracing_level());
            }
        }
        "cleartext" => {
            if let Some(Ok(x)) = guard!("deserialize", CleartextHeader::deserialize(bytes)) {
                parsed = true;
                guard!("serialize", x.serialize().map(|_| ()));
            }
        }
        "usk" => {
            if let Some(Ok(x)) = guard!("deserialize", UserSecretKey::deserialize(bytes)) {
                parsed = true;
                guard!("tracing_level", x.tracing_level());
                guard!("count", x.count());
                for e in &h.encs {
                    guard!("decaps(mutant usk, valid)", h.cc.decaps(&x, e).map(|_| ()));
                }
                guard!("serialize", x.serialize().map(|_| ()));
            }
        }
        "mpk" => {
            if let Some(Ok(x)) = guard!("deserialize", MasterPublicKey::deserialize(bytes)) {
                parsed = true;
                guard!("tracing_level", x.tracing_level());
                guard!("structure.attributes", x.access_structure.attributes().count());
                guard!("serialize", x.serialize().map(|_| ()));
            }
        }
        "msk" => {
            if let Some(Ok(x)) = guard!("deserialize", MasterSecretKey::deserialize(bytes)) {
                parsed = true;
                guard!("mpk()", x.mpk().map(|_| ()));
                guard!("structure.dimensions", x.access_structure.dimensions().count());
                guard!("serialize", x.serialize().map(|_| ()));
            }
        }
        _ => {
            if let Some(Ok(x)) = guard!("deserialize", AccessStructure::deserialize(bytes)) {
                parsed = true;
                guard!("attributes", x.attributes().count());
                guard!("dimensions", x.dimensions().count());
                guard!("serialize", x.serialize().map(|_| ()));
            }
        }
    }
    let cpu = alloc::thread_cpu_s() - cpu0;
    let (peak, max_req) = alloc::window_end(live0);
    #[cfg(feature = "hooks")]
    {
        st.add("iterator_steps", cosmian_cover_crypt::verif_hooks::steps());
        cosmian_cover_crypt::verif_hooks::reset_steps(None);
    }
    if max_req > bound {
        problems.push((format!("over-allocation:{kind}:single-request"), format!("a single allocation request of {max_req} bytes for a {}-byte input (bound {bound})", bytes.len())));
    } else if peak > bound {
        problems.push((format!("over-allocation:{kind}:peak"), format!("peak heap growth {peak} bytes for a {}-byte input (bound {bound})", bytes.len())));
    }
    if cpu > 5.0 {
        problems.push((format!("cpu-time:{kind}"), format!("{cpu:.1}s of CPU for a {}-byte input", bytes.len())));
    }
    st.bump("mutants_run");
    if parsed {
        st.bump("mutants_parsed_and_used");
    }
    problems
}

fn msg_class(m: &str) -> String {
    let m = m.split(" @ ").next().unwrap_or(m);
    let t: String = m.chars().filter(|c| !c.is_ascii_digit()).take(48).collect();
    t.replace(' ', "-")
}

/// Worker process entry point.
pub fn worker(bases_path: &str, shard: usize, nshards: usize, from: u64, seed: u64, thorough: bool, progress: &str, out: &str) {
    alloc::set_limit(1 << 30);
    let Some(bases) = std::fs::read_to_string(bases_path).ok().and_then(|t| serde_json::from_str::<Value>(&t).ok()).and_then(|v| Bases::from_json(&v)) else {
        eprintln!("worker: cannot load bases");
        std::process::exit(3);
    };
    let mut h = Helpers {
        cc: Covercrypt::default(),
        usks: bases.usks.iter().filter_map(|b| UserSecretKey::deserialize(b).ok()).collect(),
        encs: bases.encs.iter().filter_map(|b| XEnc::deserialize(b).ok()).collect(),
    };
    let mut st = Stats::default();
    let mut pf = std::fs::OpenOptions::new().create(true).write(true).truncate(true).open(progress).expect("progress file");
    let mut idx: u64 = 0;
    for (kind, label, base) in &bases.objs {
        let ms = mutants(kind, base, seed, thorough);
        for (op, bytes) in ms {
            let me = idx;
            idx += 1;
            if me % nshards as u64 != shard as u64 || me < from {
                continue;
            }
            // progress first: if the process dies, the parent knows which input did it
            use std::io::Seek;
            let _ = pf.seek(std::io::SeekFrom::Start(0));
            let _ = pf.write_all(format!("{me:020}\n").as_bytes());
            let problems = run_mutant(kind, &bytes, &h, &mut st);
            if problems.iter().any(|p| p.0.starts_with("panic")) {
                // a panic inside a call poisons the instance's lock: do not let it cascade
                h.cc = Covercrypt::default();
            }
            st.shapes.insert(fnv(format!("{kind}|{label}|{}", op_class(&op)).as_bytes()));
            for (sig, detail) in problems {
                let sig = if sig.starts_with("panic") { format!("{sig}:{}", msg_class(&detail)) } else { sig };
                if !st.findings.iter().any(|f| f.signature == format!("C14:{sig}")) {
                    st.findings.push(Finding {
                        prop: "C14".into(),
                        signature: format!("C14:{sig}"),
                        detail: format!("{kind}/{label} {op} ({} bytes): {detail}", bytes.len()),
                        replay: json!({"monitor": "c14", "kind": kind, "base": label, "op": op, "input": if bytes.len() <= 6000 { wire::hex(&bytes) } else { format!("{}…", wire::hex(&bytes[..6000])) }}),
                    });
                }
            }
        }
    }
    let _ = pf.seek_done();
    let v = st.to_json("C14", wire::CONFIG);
    std::fs::write(out, serde_json::to_string(&v).unwrap()).expect("worker output");
}

trait SeekDone {
    fn seek_done(&mut self) -> std::io::Result<()>;
}
impl SeekDone for std::fs::File {
    fn seek_done(&mut self) -> std::io::Result<()> {
        use std::io::Seek;
        self.seek(std::io::SeekFrom::Start(0))?;
        self.write_all(b"DONE                \n")
    }
}

fn proc_cpu_s(pid: u32) -> Option<f64> {
    let s = std::fs::read_to_string(format!("/proc/{pid}/stat")).ok()?;
    let rest = s.rsplit_once(')')?.1;
    let f: Vec<&str> = rest.split_whitespace().collect();
    let ut: f64 = f.get(11)?.parse().ok()?;
    let stt: f64 = f.get(12)?.parse().ok()?;
    Some((ut + stt) / 100.0)
}

fn locate(bases: &Bases, seed: u64, thorough: bool, idx: u64) -> Option<(String, String, String, Vec<u8>)> {
    let mut i = 0u64;
    for (kind, label, base) in &bases.objs {
        let ms = mutants(kind, base, seed, thorough);
        if idx < i + ms.len() as u64 {
            let (op, b) = ms.into_iter().nth((idx - i) as usize)?;
            return Some((kind.clone(), label.clone(), op, b));
        }
        i += ms.len() as u64;
    }
    None
}

/// In-process run of every `stride`-th mutant (used under valgrind memcheck, where the interesting
/// oracle is the tool itself).
pub fn sample(seed: u64, stride: u64) -> Stats {
    let mut st = Stats::default();
    let Some(bases) = build_bases() else {
        st.inconclusive.push("cannot build bases".into());
        return st;
    };
    let mut h = Helpers {
        cc: Covercrypt::default(),
        usks: bases.usks.iter().filter_map(|b| UserSecretKey::deserialize(b).ok()).collect(),
        encs: bases.encs.iter().filter_map(|b| XEnc::deserialize(b).ok()).collect(),
    };
    let mut idx = 0u64;
    for (kind, label, base) in &bases.objs {
        for (op, bytes) in mutants(kind, base, seed, false) {
            idx += 1;
            if idx % stride != seed % stride {
                continue;
            }
            // this pass runs under valgrind (25-50x slower): the megabyte-sized inputs are left to the
            // native and ASan passes, and the CPU / allocation ceilings (calibrated for native speed)
            // are not applied here — memcheck's own reports and panics are what this pass is for
            if bytes.len() > (1 << 20) {
                continue;
            }
            let problems: Vec<(String, String)> = run_mutant(kind, &bytes, &h, &mut st).into_iter().filter(|p| p.0.starts_with("panic")).collect();
            if problems.iter().any(|p| p.0.starts_with("panic")) {
                h.cc = Covercrypt::default();
            }
            st.shapes.insert(fnv(format!("{kind}|{label}|{}", op_class(&op)).as_bytes()));
            for (sig, detail) in problems {
                let sig = if sig.starts_with("panic") { format!("{sig}:{}", msg_class(&detail)) } else { sig };
                if !st.findings.iter().any(|f| f.signature == format!("C14:{sig}")) {
                    st.findings.push(Finding { prop: "C14".into(), signature: format!("C14:{sig}"), detail: format!("{kind}/{label} {op}: {detail}"), replay: json!({"monitor": "c14", "kind": kind, "op": op}) });
                }
            }
        }
    }
    st
}

/// Parent: orchestrates the worker processes.
pub fn run(tier: &str, seed: u64, nshards: usize, scratch: &Path, single_input: Option<Value>) -> Stats {
    let mut st = Stats::default();
    let thorough = tier == "thorough";
    let exe = std::env::current_exe().expect("current exe");
    let _ = std::fs::create_dir_all(scratch);
    if let Some(r) = single_input {
        // replay of one recorded input, in a child process
        let Some(bases) = build_bases() else {
            st.inconclusive.push("cannot build bases".into());
            return st;
        };
        let h = Helpers {
            cc: Covercrypt::default(),
            usks: bases.usks.iter().filter_map(|b| UserSecretKey::deserialize(b).ok()).collect(),
            encs: bases.encs.iter().filter_map(|b| XEnc::deserialize(b).ok()).collect(),
        };
        if let (Some(kind), Some(input)) = (r["kind"].as_str(), r["input"].as_str().and_then(|s| wire::unhex(s.trim_end_matches('…')).ok())) {
            for (sig, detail) in run_mutant(kind, &input, &h, &mut st) {
                st.findings.push(Finding { prop: "C14".into(), signature: format!("C14:{sig}"), detail, replay: r.clone() });
            }
        }
        st.shapes.insert(1);
        st.shapes.insert(2);
        return st;
    }
    let Some(bases) = build_bases() else {
        st.inconclusive.push("cannot build bases".into());
        return st;
    };
    let bases_path = scratch.join("bases.json");
    if std::fs::write(&bases_path, serde_json::to_string(&bases.to_json()).unwrap()).is_err() {
        st.inconclusive.push("cannot write bases".into());
        return st;
    }
    let total: u64 = bases.objs.iter().map(|(k, _, b)| mutants(k, b, seed, thorough).len() as u64).sum();
    st.add("mutants_planned", total);
    struct W {
        shard: usize,
        child: std::process::Child,
        progress: std::path::PathBuf,
        out: std::path::PathBuf,
        errlog: std::path::PathBuf,
        last_idx: String,
        idx_since: Instant,
        cpu_at_idx: f64,
        restarts: u32,
    }
    let spawn = |shard: usize, from: u64| -> Option<W> {
        let progress = scratch.join(format!("progress-{shard}"));
        let out = scratch.join(format!("out-{shard}-{from}.json"));
        let errlog = scratch.join(format!("stderr-{shard}-{from}.log"));
        let errf = std::fs::File::create(&errlog).ok()?;
        let child = Command::new(&exe)
            .args(["c14-worker", "C14", "--bases", bases_path.to_str()?, "--shard", &shard.to_string(), "--nshards", &nshards.to_string(), "--from", &from.to_string(), "--seed", &seed.to_string(), "--tier", tier, "--progress", progress.to_str()?, "--out", out.to_str()?])
            .stdout(Stdio::null())
            .stderr(Stdio::from(errf))
            .spawn()
            .ok()?;
        Some(W { shard, child, progress, out, errlog, last_idx: String::new(), idx_since: Instant::now(), cpu_at_idx: 0.0, restarts: 0 })
    };
    let mut ws: Vec<W> = (0..nshards).filter_map(|s| spawn(s, 0)).collect();
    if ws.len() != nshards {
        st.inconclusive.push("cannot spawn workers".into());
    }
    let started = Instant::now();
    let outer = Duration::from_secs(if thorough { 3 * 3600 } else { 1200 });
    let mut done: Vec<std::path::PathBuf> = vec![];
    while !ws.is_empty() {
        std::thread::sleep(Duration::from_millis(100));
        let mut next: Vec<W> = vec![];
        for mut w in ws {
            let idx_now = std::fs::read_to_string(&w.progress).unwrap_or_default().trim().to_string();
            match w.child.try_wait() {
                Ok(Some(status)) => {
                    if status.success() && w.out.exists() {
                        done.push(w.out.clone());
                        continue;
                    }
                    // died: attribute to the input in progress
                    let idx: u64 = idx_now.parse().unwrap_or(0);
                    let err = std::fs::read_to_string(&w.errlog).unwrap_or_default();
                    let refused = err.lines().rev().find(|l| l.starts_with("ALLOC-REFUSED")).map(|l| l.to_string());
                    let located = locate(&bases, seed, thorough, idx);
                    let (kind, label, op, bytes) = located.unwrap_or(("?".into(), "?".into(), "?".into(), vec![]));
                    let class = if refused.is_some() { "absurd-allocation-aborts-process" } else { "process-crash" };
                    let sig = format!("C14:{class}:{kind}");
                    if !st.findings.iter().any(|f| f.signature == sig) {
                        st.findings.push(Finding {
                            prop: "C14".into(),
                            signature: sig,
                            detail: format!("{kind}/{label} {op} ({} bytes): worker process ended with {status} {}; stderr tail: {}", bytes.len(), refused.clone().unwrap_or_default(), trunc(&err.lines().rev().take(4).collect::<Vec<_>>().join(" | "), 300)),
                            replay: json!({"monitor": "c14", "kind": kind, "base": label, "op": op, "input": wire::hex(&bytes[..bytes.len().min(6000)])}),
                        });
                    }
                    st.bump("worker_deaths");
                    // partial results of the dead worker are lost; restart after the culprit
                    if w.restarts < 200 {
                        if let Some(mut nw) = spawn(w.shard, idx + 1) {
                            nw.restarts = w.restarts + 1;
                            next.push(nw);
                        }
                    } else {
                        st.inconclusive.push(format!("shard {} died more than 200 times", w.shard));
                    }
                }
                Ok(None) => {
                    let cpu = proc_cpu_s(w.child.id()).unwrap_or(0.0);
                    if idx_now != w.last_idx {
                        w.last_idx = idx_now;
                        w.idx_since = Instant::now();
                        w.cpu_at_idx = cpu;
                    } else if cpu - w.cpu_at_idx > 20.0 {
                        // the same input for 20 s of CPU: non-termination (honest cost: milliseconds)
                        let idx: u64 = w.last_idx.parse().unwrap_or(0);
                        let _ = w.child.kill();
                        let _ = w.child.wait();
                        let (kind, label, op, bytes) = locate(&bases, seed, thorough, idx).unwrap_or(("?".into(), "?".into(), "?".into(), vec![]));
                        let sig = format!("C14:non-termination:{kind}");
                        if !st.findings.iter().any(|f| f.signature == sig) {
                            st.findings.push(Finding {
                                prop: "C14".into(),
                                signature: sig,
                                detail: format!("{kind}/{label} {op} ({} bytes): no progress after 20 s of CPU time on this single input", bytes.len()),
                                replay: json!({"monitor": "c14", "kind": kind, "base": label, "op": op, "input": wire::hex(&bytes[..bytes.len().min(6000)])}),
                            });
                        }
                        st.bump("worker_hangs");
                        if let Some(mut nw) = spawn(w.shard, idx + 1) {
                            nw.restarts = w.restarts + 1;
                            next.push(nw);
                        }
                        continue;
                    }
                    if started.elapsed() > outer {
                        let _ = w.child.kill();
                        let _ = w.child.wait();
                        st.inconclusive.push(format!("shard {} hit the outer wall-clock watchdog", w.shard));
                        continue;
                    }
                    next.push(w);
                }
                Err(_) => {
                    st.inconclusive.push("cannot wait for a worker".into());
                }
            }
        }
        ws = next;
    }
    for p in done {
        if let Some(v) = std::fs::read_to_string(&p).ok().and_then(|t| serde_json::from_str::<Value>(&t).ok()) {
            if let Some(c) = v["counters"].as_object() {
                for (k, n) in c {
                    st.add(k, n.as_u64().unwrap_or(0));
                }
            }
            if let Some(sh) = v["shapes"].as_array() {
                for h in sh {
                    if let Some(x) = h.as_str().and_then(|s| u64::from_str_radix(s, 16).ok()) {
                        st.shapes.insert(x);
                    }
                }
            }
            if let Some(fs) = v["findings"].as_array() {
                for f in fs {
                    let sig = f["signature"].as_str().unwrap_or("?").to_string();
                    if !st.findings.iter().any(|x| x.signature == sig) {
                        st.findings.push(Finding { prop: "C14".into(), signature: sig, detail: f["detail"].as_str().unwrap_or("").to_string(), replay: f["replay"].clone() });
                    }
                }
            }
        }
    }
    st.sample(
        json!({
            "bases": bases.objs.iter().map(|(k, l, b)| format!("{k}/{l}:{}B", b.len())).collect::<Vec<_>>(),
            "operators": "every truncation; every byte x {^01,^80,00,FF,+1}; every LEB128 count/length/flag field x {0,1,127,128,2^16,2^32-1,2^32,2^63-1,2^63,2^64-1} re-encoded and in place; random strings 0..4096 B with and without a valid prefix",
            "uses": "decaps(valid usk, mutant enc), decaps(mutant usk, valid enc), header.decrypt, tracing_level(), count(), msk.mpk(), structure accessors, re-serialization",
            "bounds": "allocation request and peak growth <= 64*len + 1 MiB; <= 10000+100*len iterator steps; <= 5 s thread CPU per input; 20 s process CPU without progress = hang",
        }),
        2,
    );
    st
}
