//! C13 — golden vectors: objects serialized by the pinned release must keep deserializing to
//! working objects. `gen` is run once against the pinned tree; `check` runs against the current
//! tree on every C13 run, replays the recorded decapsulation table and continues a lifecycle.

use serde_json::{json, Value};

use crate::{
    real::{self, *},
    report::{Finding, Stats},
    rng::fnv,
    wire::{self, WMpk, WMsk, WUsk, WXenc},
};

fn hexs<T: Serializable>(x: &T) -> String
where
    T::Error: std::fmt::Display,
{
    wire::hex(&ser(x).ok().expect("serialize"))
}

/// Generates the vectors (run against the pinned tree).
pub fn gen(out: &str) {
    let cc = Covercrypt::default();
    let (mut msk, mpk0) = cc.setup().expect("setup");
    {
        let s = &mut msk.access_structure;
        s.add_anarchy("D".into()).unwrap();
        s.add_hierarchy("H".into()).unwrap();
        s.add_attribute(QualifiedAttribute::new("D", "A"), hint(false), None).unwrap();
        s.add_attribute(QualifiedAttribute::new("D", "B"), hint(true), None).unwrap();
        s.add_attribute(QualifiedAttribute::new("D", "Low Sec"), hint(false), None).unwrap();
        s.add_attribute(QualifiedAttribute::new("H", "L"), hint(false), None).unwrap();
        s.add_attribute(QualifiedAttribute::new("H", "T"), hint(true), Some("L")).unwrap();
    }
    let mpk1 = cc.update_msk(&mut msk).expect("update");
    let p = |s: &str| AccessPolicy::parse(s).unwrap();
    let key_pols = ["D::A && H::T", "D::B", "*", "H::L", "D::Low Sec && H::L || D::A && H::L"];
    let mut usks: Vec<UserSecretKey> = key_pols.iter().map(|k| cc.generate_user_secret_key(&mut msk, &p(k)).unwrap()).collect();
    let enc_pols = ["D::A && H::T", "D::A && H::L", "D::B && H::L", "D::Low Sec", "*", "D::A && H::T || D::B && H::T", "H::T", "D::B"];
    let mut encs: Vec<(String, String, XEnc, [u8; 32])> = vec![];
    for e in enc_pols {
        let (s, x) = cc.encaps(&mpk1, &p(e)).unwrap();
        encs.push((e.to_string(), "mpk1".into(), x, real::secret_bytes(&s)));
    }
    // rotation: every right of usk0 is in the complementary space of D::A
    let mpk2 = cc.rekey(&mut msk, &p("D::A")).unwrap();
    cc.refresh_usk(&mut msk, &mut usks[0], true).unwrap();
    for e in ["D::A && H::T", "D::A", "*"] {
        let (s, x) = cc.encaps(&mpk2, &p(e)).unwrap();
        encs.push((e.to_string(), "mpk2".into(), x, real::secret_bytes(&s)));
    }
    // a disabled attribute
    msk.access_structure.disable_attribute(&QualifiedAttribute::new("D", "Low Sec")).unwrap();
    let mpk3 = cc.update_msk(&mut msk).unwrap();
    // headers
    let (hs1, h1) = EncryptedHeader::generate(&cc, &mpk2, &p("D::A && H::T"), Some(b"golden metadata"), Some(b"golden aad")).unwrap();
    let (hs2, h2) = EncryptedHeader::generate(&cc, &mpk1, &p("D::B"), None, None).unwrap();
    let clear = h1.decrypt(&cc, &usks[0], Some(b"golden aad")).unwrap().unwrap();
    // table, as the pinned release computes it
    let mut table = vec![];
    for (i, u) in usks.iter().enumerate() {
        let mut row = vec![];
        for (_, _, x, s) in &encs {
            let r = cc.decaps(u, x).unwrap();
            row.push(match r {
                Some(k) => {
                    assert_eq!(real::secret_bytes(&k), *s);
                    true
                }
                None => false,
            });
        }
        table.push(json!({"key": i, "opens": row}));
    }
    let v = json!({
        "config": wire::CONFIG,
        "generated_by": "pinned release (commit 8f3c295), via the public API",
        "msk": hexs(&msk),
        "mpks": {"mpk0": hexs(&mpk0), "mpk1": hexs(&mpk1), "mpk2": hexs(&mpk2), "mpk3": hexs(&mpk3)},
        "structure": hexs(&msk.access_structure),
        "usks": usks.iter().zip(key_pols).map(|(u, k)| json!({"policy": k, "bytes": hexs(u)})).collect::<Vec<_>>(),
        "encs": encs.iter().map(|(e, m, x, s)| json!({"policy": e, "mpk": m, "bytes": hexs(x), "secret": wire::hex(s)})).collect::<Vec<_>>(),
        "headers": [
            {"bytes": hexs(&h1), "secret": wire::hex(&real::secret_bytes(&hs1)), "metadata": wire::hex(b"golden metadata"), "aad": wire::hex(b"golden aad"), "key": 0},
            {"bytes": hexs(&h2), "secret": wire::hex(&real::secret_bytes(&hs2)), "metadata": "", "aad": "", "key": 1},
        ],
        "cleartext": hexs(&clear),
        "table": table,
    });
    std::fs::write(out, serde_json::to_string_pretty(&v).unwrap()).expect("write golden");
}

fn fail(st: &mut Stats, sig: &str, detail: String) {
    st.findings.push(Finding {
        prop: "C13".into(),
        signature: format!("C13:golden:{sig}"),
        detail,
        replay: json!({"monitor": "golden"}),
    });
}

/// Objects whose counts, lengths and ids need two LEB128 bytes: a dimension of 130 attributes (ids
/// up to 129, 131 rights, user keys with > 127 rights), a right re-keyed 130 times (chains of 131
/// revisions), a 300-byte dimension name. Everything is round-tripped, read by the independent wire
/// reader, and used.
pub fn sizes(st: &mut Stats) {
    let cc = Covercrypt::default();
    let Out::Ok((mut msk, _)) = call(|| cc.setup()) else { return };
    let big_dim = "Dim-".to_string() + &"x".repeat(300);
    let _ = msk.access_structure.add_anarchy(big_dim.clone());
    let _ = msk.access_structure.add_hierarchy("H".into());
    for i in 0..130 {
        let _ = msk.access_structure.add_attribute(QualifiedAttribute::new(&big_dim, &format!("a{i}")), hint(i % 50 == 7), None);
    }
    let _ = msk.access_structure.add_attribute(QualifiedAttribute::new("H", "L"), hint(false), None);
    let Out::Ok(mpk) = call(|| cc.update_msk(&mut msk)) else {
        fail(st, "sizes:update-fails", String::new());
        return;
    };
    let star = AccessPolicy::parse("*").unwrap();
    let a129 = AccessPolicy::parse(&format!("{big_dim}::a129 && H::L")).unwrap();
    let Out::Ok(mut usk_all) = call(|| cc.generate_user_secret_key(&mut msk, &star)) else {
        fail(st, "sizes:keygen-fails", String::new());
        return;
    };
    let Out::Ok(mut usk_one) = call(|| cc.generate_user_secret_key(&mut msk, &a129)) else { return };
    let Out::Ok((s0, e0)) = call(|| cc.encaps(&mpk, &a129)) else {
        fail(st, "sizes:encaps-fails", String::new());
        return;
    };
    // 130 revisions of the rights of a129's complementary space
    let mut last_mpk = None;
    for _ in 0..130 {
        match call(|| cc.rekey(&mut msk, &a129)) {
            Out::Ok(m) => last_mpk = Some(m),
            o => {
                fail(st, "sizes:rekey-fails", o.describe());
                return;
            }
        }
    }
    let Some(mpk_new) = last_mpk else { return };
    for (name, u) in [("all", &mut usk_all), ("one", &mut usk_one)] {
        let o = call(|| cc.refresh_usk(&mut msk, u, true));
        if !o.is_ok() {
            fail(st, "sizes:refresh-fails", format!("{name}: {}", o.describe()));
        }
    }
    let Out::Ok((s1, e1)) = call(|| cc.encaps(&mpk_new, &a129)) else { return };
    macro_rules! rt {
        ($x:expr, $ty:ty, $n:expr) => {{
            match ser(&$x) {
                Out::Ok(b) => {
                    st.bump("roundtrips_ok");
                    if b.len() != $x.length() {
                        fail(st, &format!("sizes:length-mismatch:{}", $n), format!("length()={} bytes={}", $x.length(), b.len()));
                    }
                    match de::<$ty>(&b) {
                        Out::Ok(y) if y == $x => Some((y, b)),
                        o => {
                            fail(st, &format!("sizes:roundtrip-not-equal:{}", $n), match o { Out::Ok(_) => "differs".to_string(), x => x.describe() });
                            None
                        }
                    }
                }
                o => {
                    fail(st, &format!("sizes:serialize-failed:{}", $n), o.describe());
                    None
                }
            }
        }};
    }
    // 130 more registered users: the count prefix of the id list takes two LEB128 bytes
    for _ in 0..130 {
        if !call(|| cc.generate_user_secret_key(&mut msk, &a129)).is_ok() {
            fail(st, "sizes:keygen-fails", "while registering 130 more users".into());
            return;
        }
    }
    let Some((msk2, mb)) = rt!(msk, MasterSecretKey, "msk-132-users") else { return };
    let Some((_, pb)) = rt!(mpk_new, MasterPublicKey, "mpk") else { return };
    let Some((usk_all2, ub)) = rt!(usk_all, UserSecretKey, "usk-131-rights") else { return };
    let Some((usk_one2, _)) = rt!(usk_one, UserSecretKey, "usk-131-revisions") else { return };
    let Some((e0b, _)) = rt!(e0, XEnc, "xenc") else { return };
    let _ = rt!(msk.access_structure, AccessStructure, "structure");
    // the independent reader agrees on the counts
    match (WMsk::parse(&mb), WMpk::parse(&pb), WUsk::parse(&ub)) {
        (Ok(wm), Ok(wp), Ok(wu)) => {
            let max_chain = wm.chains.iter().map(|c| c.1.len()).max().unwrap_or(0);
            if wm.chains.len() != 131 * 2 || max_chain != 131 || wp.keys.len() != 131 * 2 || wu.chains.len() != 131 * 2 {
                fail(st, "sizes:counts-differ", format!("msk rights {} (max chain {max_chain}), mpk keys {}, usk rights {}", wm.chains.len(), wp.keys.len(), wu.chains.len()));
            }
            if wm.users.len() != 132 {
                fail(st, "sizes:counts-differ", format!("{} registered users in the serialized master key, 132 keys were issued", wm.users.len()));
            }
            let max_id = wm.structure.dims.iter().flat_map(|d| d.attrs.iter().map(|a| a.id)).max().unwrap_or(0);
            if max_id < 128 {
                fail(st, "sizes:ids-too-small-for-the-scenario", format!("{max_id}"));
            }
        }
        _ => fail(st, "sizes:wire-reader-rejects", String::new()),
    }
    // behaviour through the copies
    let _ = msk2;
    for (name, u, e, s, expect) in [
        ("refreshed(keep) 131-revision key on the oldest encapsulation", &usk_one2, &e0b, &s0, true),
        ("refreshed(keep) 131-revision key on the newest encapsulation", &usk_one2, &e1, &s1, true),
        ("'*' key with 262 rights on the newest encapsulation", &usk_all2, &e1, &s1, true),
    ] {
        st.bump("golden_decaps");
        match call(|| cc.decaps(u, e)) {
            Out::Ok(Some(k)) if expect && real::secret_bytes(&k) == real::secret_bytes(s) => {}
            o => fail(st, "sizes:decaps-differs", format!("{name}: {}", match o { Out::Ok(Some(_)) => "wrong secret".to_string(), Out::Ok(None) => "None".to_string(), x => x.describe() })),
        }
    }
    st.shapes.insert(fnv(b"sizes-scenario"));
    big_ids(st);
    refreshed_across_tracing_levels(st);
}

/// A user key issued at tracing level 1 and refreshed by a master key that has more tracers (a
/// master key read from bytes with (t, t·G) pairs appended): the refreshed key is an object the API
/// produced, so it must survive serialization like any other (length, equality, usability).
fn refreshed_across_tracing_levels(st: &mut Stats) {
    let cc = Covercrypt::default();
    let Out::Ok((mut msk, _)) = call(|| cc.setup()) else { return };
    let _ = msk.access_structure.add_anarchy("D".into());
    let _ = msk.access_structure.add_attribute(QualifiedAttribute::new("D", "A"), hint(false), None);
    let _ = msk.access_structure.add_attribute(QualifiedAttribute::new("D", "B"), hint(true), None);
    if !call(|| cc.update_msk(&mut msk)).is_ok() {
        return;
    }
    let ap = AccessPolicy::parse("D::A || D::B").unwrap();
    let Out::Ok(usk0) = call(|| cc.generate_user_secret_key(&mut msk, &ap)) else { return };
    for extra in [1usize, 2] {
        let Some(mut msk2) = ser(&msk).ok().and_then(|b| WMsk::parse(&b).ok()).and_then(|mut w| {
            for k in 0..extra {
                let mut t: Vec<u8> = (0..32u8).map(|i| i.wrapping_mul(7).wrapping_add(k as u8 + 3)).collect();
                t[0] = 0;
                t[31] = 0;
                let p = crate::arith::base_mul(&t)?;
                w.tracers.push((t, p));
            }
            de::<MasterSecretKey>(&w.write()).ok()
        }) else {
            st.inconclusive.push("cannot build a master key with more tracers".into());
            return;
        };
        let mut usk = usk0.clone();
        for keep in [true, false] {
            if !call(|| cc.refresh_usk(&mut msk2, &mut usk, keep)).is_ok() {
                // whether such a refresh is granted is not this property's business
                st.bump("cross_level_refresh_refused");
                continue;
            }
            st.bump("cross_level_refresh_ok");
            match ser(&usk) {
                Out::Ok(b) => {
                    st.bump("roundtrips_ok");
                    if b.len() != usk.length() {
                        fail(st, "cross-level:length-mismatch:usk", format!("length()={} bytes={}", usk.length(), b.len()));
                    }
                    match de::<UserSecretKey>(&b) {
                        Out::Ok(y) if y == usk => {
                            if ser(&y).ok().as_ref() != Some(&b) {
                                fail(st, "cross-level:roundtrip-copy-serializes-differently:usk", String::new());
                            }
                        }
                        Out::Ok(_) => fail(st, "cross-level:roundtrip-not-equal:usk", format!("key refreshed by a master key with {} tracers", 2 + extra)),
                        o => fail(st, "cross-level:roundtrip-rejected:usk", format!("key refreshed by a master key with {} tracers: {}", 2 + extra, o.describe())),
                    }
                }
                o => fail(st, "cross-level:serialize-failed:usk", o.describe()),
            }
        }
        st.shapes.insert(fnv(format!("cross-level-{extra}").as_bytes()));
    }
}

/// Attribute ids that need two and three LEB128 bytes inside right names (>= 128, >= 16384): the id
/// counter is pushed up by add/delete cycles (ids are never reused), then a real attribute is added,
/// keyed, encapsulated for, round-tripped.
fn big_ids(st: &mut Stats) {
    for target in [300usize, 16_500] {
        let cc = Covercrypt::default();
        let Out::Ok((mut msk, _)) = call(|| cc.setup()) else { return };
        let _ = msk.access_structure.add_anarchy("D".into());
        let _ = msk.access_structure.add_hierarchy("H".into());
        let _ = msk.access_structure.add_attribute(QualifiedAttribute::new("H", "L"), hint(false), None);
        for i in 0..target {
            let name = format!("t{i}");
            let _ = msk.access_structure.add_attribute(QualifiedAttribute::new("D", &name), hint(false), None);
            let _ = msk.access_structure.del_attribute(&QualifiedAttribute::new("D", &name));
        }
        let _ = msk.access_structure.add_attribute(QualifiedAttribute::new("D", "big"), hint(true), None);
        let _ = msk.access_structure.add_attribute(QualifiedAttribute::new("H", "T"), hint(false), Some("L"));
        let Out::Ok(mpk) = call(|| cc.update_msk(&mut msk)) else {
            fail(st, "big-ids:update-fails", format!("{target}"));
            continue;
        };
        let id = ser(&msk).ok().and_then(|b| WMsk::parse(&b).ok()).and_then(|w| w.structure.attr_id("D", "big"));
        if id.map_or(true, |i| (i as usize) < target) {
            fail(st, "big-ids:id-counter-did-not-advance", format!("D::big has id {id:?} after {target} add/delete cycles"));
            continue;
        }
        let kp = AccessPolicy::parse("D::big && H::T").unwrap();
        let other = AccessPolicy::parse("H::L").unwrap();
        let (Out::Ok(usk), Out::Ok(usk_low)) = (call(|| cc.generate_user_secret_key(&mut msk, &kp)), call(|| cc.generate_user_secret_key(&mut msk, &other))) else {
            fail(st, "big-ids:keygen-fails", format!("{target}"));
            continue;
        };
        for (ep, expect_hi, expect_low) in [("D::big && H::L", true, true), ("D::big && H::T", true, false), ("D::big", true, true), ("H::T", true, false)] {
            let ap = AccessPolicy::parse(ep).unwrap();
            let Out::Ok((s, e)) = call(|| cc.encaps(&mpk, &ap)) else {
                fail(st, "big-ids:encaps-fails", ep.to_string());
                continue;
            };
            // everything through bytes
            let e = ser(&e).ok().and_then(|b| de::<XEnc>(&b).ok()).unwrap_or(e);
            let u = ser(&usk).ok().and_then(|b| de::<UserSecretKey>(&b).ok());
            let Some(u) = u else {
                fail(st, "big-ids:usk-roundtrip-fails", String::new());
                continue;
            };
            if u != usk {
                fail(st, "big-ids:usk-roundtrip-not-equal", format!("ids around {target}"));
            }
            for (who, key, expect) in [("holder", &u, expect_hi), ("low", &usk_low, expect_low)] {
                st.bump("golden_decaps");
                let got = match call(|| cc.decaps(key, &e)) {
                    Out::Ok(Some(k)) => real::secret_bytes(&k) == real::secret_bytes(&s),
                    Out::Ok(None) => false,
                    o => {
                        fail(st, "big-ids:decaps-fails", o.describe());
                        continue;
                    }
                };
                // "low" holds H::L only: it opens targets whose H part is absent or L and whose D
                // part... it has no D attribute named, so any D attribute is covered
                if got != expect {
                    fail(st, "big-ids:decaps-differs", format!("ids around {target}: {who} on {ep}: got {got}, expected {expect}"));
                }
            }
        }
        if let Some(b) = ser(&msk).ok() {
            st.bump("roundtrips_ok");
            if b.len() != msk.length() || de::<MasterSecretKey>(&b).ok().map_or(true, |m| m != msk) {
                fail(st, "big-ids:msk-roundtrip", format!("ids around {target}"));
            }
        }
        st.shapes.insert(fnv(format!("big-ids-{target}").as_bytes()));
    }
}

/// Loads the vectors with the current tree and checks that they still work.
pub fn check(path: &str) -> Stats {
    let mut st = Stats::default();
    let Some(v) = std::fs::read_to_string(path).ok().and_then(|t| serde_json::from_str::<Value>(&t).ok()) else {
        st.inconclusive.push(format!("cannot read {path}"));
        return st;
    };
    if v["config"].as_str() != Some(wire::CONFIG) {
        st.inconclusive.push("golden vectors of another configuration".into());
        return st;
    }
    let hx = |x: &Value| x.as_str().and_then(|s| wire::unhex(s).ok()).unwrap_or_default();
    let cc = Covercrypt::default();
    macro_rules! load {
        ($ty:ty, $bytes:expr, $name:expr) => {{
            match de::<$ty>(&$bytes) {
                Out::Ok(x) => {
                    st.bump("golden_objects_loaded");
                    Some(x)
                }
                o => {
                    fail(&mut st, &format!("cannot-deserialize:{}", $name), o.describe());
                    None
                }
            }
        }};
    }
    let Some(mut msk) = load!(MasterSecretKey, hx(&v["msk"]), "msk") else { return st };
    // the independent reader still understands the pinned format
    if WMsk::parse(&hx(&v["msk"])).is_err() {
        fail(&mut st, "wire-reader-rejects-pinned-msk", String::new());
    }
    let mut mpks = std::collections::BTreeMap::new();
    for k in ["mpk0", "mpk1", "mpk2", "mpk3"] {
        let b = hx(&v["mpks"][k]);
        if WMpk::parse(&b).is_err() {
            fail(&mut st, "wire-reader-rejects-pinned-mpk", k.to_string());
        }
        if let Some(m) = load!(MasterPublicKey, b, "mpk") {
            mpks.insert(k, m);
        }
    }
    let _ = load!(AccessStructure, hx(&v["structure"]), "structure");
    let _ = load!(CleartextHeader, hx(&v["cleartext"]), "cleartext-header");
    let mut usks = vec![];
    for u in v["usks"].as_array().cloned().unwrap_or_default() {
        let b = hx(&u["bytes"]);
        if WUsk::parse(&b).is_err() {
            fail(&mut st, "wire-reader-rejects-pinned-usk", String::new());
        }
        if let Some(k) = load!(UserSecretKey, b, "usk") {
            usks.push(k);
        }
    }
    let mut encs = vec![];
    for e in v["encs"].as_array().cloned().unwrap_or_default() {
        let b = hx(&e["bytes"]);
        if WXenc::parse(&b).is_err() {
            fail(&mut st, "wire-reader-rejects-pinned-xenc", String::new());
        }
        if let Some(x) = load!(XEnc, b, "xenc") {
            encs.push((x, hx(&e["secret"]), e["policy"].as_str().unwrap_or("").to_string()));
        }
    }
    // the recorded table
    let table = v["table"].as_array().cloned().unwrap_or_default();
    let check_table = |st: &mut Stats, usks: &[UserSecretKey], what: &str, at_least: bool| {
        for row in &table {
            let i = row["key"].as_u64().unwrap_or(0) as usize;
            let Some(u) = usks.get(i) else { continue };
            for (j, exp) in row["opens"].as_array().cloned().unwrap_or_default().iter().enumerate() {
                let Some((x, s, pol)) = encs.get(j) else { continue };
                let exp = exp.as_bool().unwrap_or(false);
                let out = call(|| cc.decaps(u, x));
                st.bump("golden_decaps");
                st.shapes.insert(fnv(format!("{what}|{i}|{j}").as_bytes()));
                let got = match &out {
                    Out::Ok(Some(k)) => {
                        if real::secret_bytes(k).as_slice() != s.as_slice() {
                            fail(st, &format!("wrong-secret:{what}"), format!("key {i} enc {j} ({pol})"));
                        }
                        true
                    }
                    Out::Ok(None) => false,
                    o => {
                        fail(st, &format!("decaps-fails:{what}"), format!("key {i} enc {j} ({pol}): {}", o.describe()));
                        continue;
                    }
                };
                if got != exp && !(at_least && got && !exp) {
                    fail(st, &format!("decaps-table-differs:{what}"), format!("key {i} on encapsulation {j} ({pol}): pinned release {exp}, now {got}"));
                }
            }
        }
    };
    check_table(&mut st, &usks, "as-loaded", false);
    // headers
    for h in v["headers"].as_array().cloned().unwrap_or_default() {
        let Some(eh) = load!(EncryptedHeader, hx(&h["bytes"]), "header") else { continue };
        let aad = hx(&h["aad"]);
        let key = h["key"].as_u64().unwrap_or(0) as usize;
        let Some(u) = usks.get(key) else { continue };
        match call(|| eh.decrypt(&cc, u, if aad.is_empty() { None } else { Some(&aad) })) {
            Out::Ok(Some(c)) => {
                st.bump("golden_headers");
                if real::secret_bytes(&c.secret).to_vec() != hx(&h["secret"]) || c.metadata.clone().unwrap_or_default() != hx(&h["metadata"]) {
                    fail(&mut st, "header-content-differs", String::new());
                }
            }
            o => fail(&mut st, "header-does-not-open", match o { Out::Ok(None) => "None".into(), x => x.describe() }),
        }
    }
    // continue a lifecycle from the pinned objects: refresh (both flags), new attribute, rekey
    let mut kept = usks.clone();
    for (i, u) in kept.iter_mut().enumerate() {
        let o = call(|| cc.refresh_usk(&mut msk, u, true));
        st.bump("golden_refreshes");
        if !o.is_ok() {
            fail(&mut st, "pinned-key-does-not-refresh:keep", format!("key {i}: {}", o.describe()));
        }
    }
    // with keep-old, everything that opened still opens — except what the master key dropped
    // (nothing here: the pinned master key still holds every secret)
    check_table(&mut st, &kept, "after-refresh-keep", true);
    let before_ids: Vec<u64> = WMsk::parse(&ser(&msk).ok().unwrap_or_default()).map(|w| w.structure.dims.iter().flat_map(|d| d.attrs.iter().map(|a| a.id)).collect()).unwrap_or_default();
    let o = call(|| msk.access_structure.add_attribute(QualifiedAttribute::new("D", "New"), hint(false), None));
    if !o.is_ok() {
        fail(&mut st, "cannot-edit-pinned-structure", o.describe());
    }
    match call(|| cc.update_msk(&mut msk)) {
        Out::Ok(mpk) => {
            // the new attribute must not collide with an id in use
            if let Ok(w) = WMsk::parse(&ser(&msk).ok().unwrap_or_default()) {
                if let Some(id) = w.structure.attr_id("D", "New") {
                    if before_ids.contains(&id) {
                        fail(&mut st, "new-attribute-reuses-an-id-of-the-pinned-structure", format!("id {id}"));
                    }
                }
            }
            let ap = AccessPolicy::parse("D::New").unwrap();
            if let Out::Ok((_, x)) = call(|| cc.encaps(&mpk, &ap)) {
                for (i, u) in kept.iter().enumerate().take(2) {
                    // keys 0 (D::A && H::T) and 1 (D::B) must not open an encapsulation for D::New
                    if !matches!(call(|| cc.decaps(u, &x)), Out::Ok(None)) {
                        fail(&mut st, "pinned-key-opens-new-attribute", format!("key {i}"));
                    }
                    st.bump("golden_decaps");
                }
            } else {
                fail(&mut st, "cannot-encapsulate-for-new-attribute", String::new());
            }
        }
        o => fail(&mut st, "cannot-update-pinned-msk", o.describe()),
    }
    let ap = AccessPolicy::parse("D::A && H::T").unwrap();
    match call(|| cc.rekey(&mut msk, &ap)) {
        Out::Ok(mpk) => {
            if let Out::Ok((s, x)) = call(|| cc.encaps(&mpk, &ap)) {
                let mut u = kept[0].clone();
                let stale = call(|| cc.decaps(&u, &x));
                if !matches!(stale, Out::Ok(None)) {
                    fail(&mut st, "stale-pinned-key-opens-after-rekey", String::new());
                }
                let _ = call(|| cc.refresh_usk(&mut msk, &mut u, false));
                match call(|| cc.decaps(&u, &x)) {
                    Out::Ok(Some(k)) if real::secret_bytes(&k) == real::secret_bytes(&s) => st.bump("golden_decaps"),
                    _ => fail(&mut st, "refreshed-pinned-key-does-not-open-after-rekey", String::new()),
                }
            }
        }
        o => fail(&mut st, "cannot-rekey-pinned-msk", o.describe()),
    }
    // from a fresh load of the pinned (format V1) master key: delete the attribute holding the highest
    // id, update, round-trip, then add an attribute: it must not get the deleted attribute's id, and
    // the key that held the deleted attribute must not gain the new one by refreshing
    if let (Some(mut m), Some(mut holder)) = (load!(MasterSecretKey, hx(&v["msk"]), "msk"), usks.first().cloned()) {
        let top = WMsk::parse(&hx(&v["msk"])).ok().and_then(|w| {
            w.structure.dims.iter().flat_map(|d| d.attrs.iter().map(move |a| (a.id, String::from_utf8_lossy(&d.name).to_string(), String::from_utf8_lossy(&a.name).to_string()))).max()
        });
        if let Some((top_id, dn, an)) = top {
            let _ = call(|| m.access_structure.del_attribute(&QualifiedAttribute::new(&dn, &an)));
            if call(|| cc.update_msk(&mut m)).is_ok() {
                match ser(&m).ok().map(|b| (de::<MasterSecretKey>(&b), b)) {
                    Some((Out::Ok(m2), _)) => {
                        st.bump("roundtrips_ok");
                        if m2 != m {
                            fail(&mut st, "pinned-msk-after-deletion-does-not-roundtrip", format!("deleted {dn}::{an} (id {top_id})"));
                        }
                        let mut m2 = m2;
                        // (added in dimension D: a new attribute in another dimension would create rights
                        // that are born disabled next to the disabled D::Low Sec)
                        let dn = "D".to_string();
                        let _ = call(|| m2.access_structure.add_attribute(QualifiedAttribute::new(&dn, "Newer"), hint(false), None));
                        if let Out::Ok(mpk) = call(|| cc.update_msk(&mut m2)) {
                            if let Some(id) = ser(&m2).ok().and_then(|b| WMsk::parse(&b).ok()).and_then(|w| w.structure.attr_id(&dn, "Newer")) {
                                if id == top_id {
                                    fail(&mut st, "deleted-id-reused-after-roundtrip-of-pinned-msk", format!("id {id}"));
                                }
                            }
                            // usks[0] is "D::A && H::T": it held the deleted H::T
                            let _ = call(|| cc.refresh_usk(&mut m2, &mut holder, true));
                            let ap = AccessPolicy::parse(&format!("{dn}::Newer")).unwrap();
                            if let Out::Ok((_, x)) = call(|| cc.encaps(&mpk, &ap)) {
                                st.bump("golden_decaps");
                                if !matches!(call(|| cc.decaps(&holder, &x)), Out::Ok(None)) {
                                    fail(&mut st, "holder-of-deleted-attribute-gains-the-new-one", format!("{dn}::Newer"));
                                }
                            }
                        }
                    }
                    _ => fail(&mut st, "pinned-msk-after-deletion-does-not-deserialize", String::new()),
                }
            }
        }
    }
    // the pinned master key re-serializes and round-trips
    if let Some(b) = ser(&msk).ok() {
        if de::<MasterSecretKey>(&b).ok().map_or(true, |m| m != msk) {
            fail(&mut st, "evolved-pinned-msk-does-not-roundtrip", String::new());
        }
    }
    // the other serializable types (headers, cleartext headers): announced length, equality after a
    // round trip, absent ≡ empty metadata on the wire
    if let Some(mpk) = mpks.get("mpk2") {
        let ap = AccessPolicy::parse("D::A && H::T").unwrap();
        for ml in [None, Some(0usize), Some(1), Some(99), Some(100), Some(127), Some(128), Some(1000), Some(16355), Some(16356), Some(16383), Some(16384)] {
            let meta: Option<Vec<u8>> = ml.map(|l| vec![0xa5; l]);
            let Out::Ok((_, h)) = call(|| EncryptedHeader::generate(&cc, mpk, &ap, meta.as_deref(), None)) else {
                fail(&mut st, "header-generate-fails", format!("{ml:?}"));
                continue;
            };
            match ser(&h) {
                Out::Ok(b) => {
                    st.bump("roundtrips_ok");
                    if b.len() != h.length() {
                        fail(&mut st, "length-mismatch:header", format!("length()={} bytes={}", h.length(), b.len()));
                    }
                    if crate::wire::WHeader::parse(&b).is_err() {
                        fail(&mut st, "wire-reader-rejects-header", String::new());
                    }
                    match de::<EncryptedHeader>(&b) {
                        Out::Ok(h2) if h2 == h => {}
                        _ => fail(&mut st, "roundtrip-not-equal:header", format!("metadata {ml:?}")),
                    }
                }
                o => fail(&mut st, "serialize-failed:header", o.describe()),
            }
            if let Out::Ok(Some(c)) = call(|| h.decrypt(&cc, &kept[0], None)) {
                match ser(&c) {
                    Out::Ok(b) => {
                        st.bump("roundtrips_ok");
                        if b.len() != c.length() {
                            fail(&mut st, "length-mismatch:cleartext-header", format!("length()={} bytes={}", c.length(), b.len()));
                        }
                        match de::<CleartextHeader>(&b) {
                            // absent and empty metadata are the same value on the wire
                            Out::Ok(c2) if c2.secret == c.secret && c2.metadata.clone().unwrap_or_default() == c.metadata.clone().unwrap_or_default() => {}
                            _ => fail(&mut st, "roundtrip-not-equal:cleartext-header", format!("metadata {ml:?}")),
                        }
                    }
                    o => fail(&mut st, "serialize-failed:cleartext-header", o.describe()),
                }
            }
        }
    }
    sizes(&mut st);
    st.sample(json!({"golden_file": path, "objects": st.get("golden_objects_loaded"), "decaps": st.get("golden_decaps")}), 1);
    st
}
