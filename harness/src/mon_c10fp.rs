//! C10 (b) — failed operations leave keys untouched: failure injection at every fallible step.
//!
//! For each of update / rekey / keygen / refresh in several states: first the fallible steps of the
//! call are counted on a twin of the state (failpoint hook in counting mode), then the call is
//! re-run once per position k with the k-th step failing. After each injected failure the master
//! key (canonical wire form) and the user key (bytes) must be exactly what they were.

use serde_json::json;

use crate::{
    real::*,
    report::{Finding, Stats},
    rng::{fnv, Rng},
    wire::WMsk,
};

#[cfg(feature = "hooks")]
use cosmian_cover_crypt::verif_hooks as hooks;

fn canon(msk: &MasterSecretKey) -> Option<WMsk> {
    ser(msk).ok().and_then(|b| WMsk::parse(&b).ok()).map(|w| w.canonical())
}

#[cfg(feature = "hooks")]
fn enumerate_failures(
    st: &mut Stats,
    what: &str,
    state_desc: &str,
    msk_bytes: &[u8],
    usk_bytes: Option<&[u8]>,
    op: &dyn Fn(&Covercrypt, &mut MasterSecretKey, Option<&mut UserSecretKey>) -> Result<(), Error>,
) {
    let cc = Covercrypt::default();
    let twin = |st: &mut Stats| -> Option<(MasterSecretKey, Option<UserSecretKey>)> {
        let m = de::<MasterSecretKey>(msk_bytes).ok();
        let u = match usk_bytes {
            Some(b) => Some(de::<UserSecretKey>(b).ok()?),
            None => None,
        };
        if m.is_none() {
            st.inconclusive.push("cannot rebuild the state".into());
        }
        Some((m?, u))
    };
    // counting run
    let Some((mut m, mut u)) = twin(st) else { return };
    hooks::arm_failpoint(None);
    let out = call(|| op(&cc, &mut m, u.as_mut()));
    let (steps, _) = hooks::failpoint_stats();
    if !out.is_ok() {
        // the un-injected call must succeed for the enumeration to mean anything
        st.bump("states_where_the_call_fails_anyway");
        return;
    }
    st.bump("calls_counted");
    st.add("fallible_steps_found", steps);
    for k in 0..steps {
        let Some((mut m, mut u)) = twin(st) else { return };
        let before_m = canon(&m);
        let before_u = u.as_ref().and_then(|x| ser(x).ok());
        hooks::arm_failpoint(Some(k));
        let out = call(|| op(&cc, &mut m, u.as_mut()));
        let (_, fired) = hooks::failpoint_stats();
        hooks::arm_failpoint(None);
        st.bump("injected_failures");
        st.shapes.insert(fnv(format!("{what}|{state_desc}|{}", if k == 0 { "first" } else if k + 1 == steps { "last" } else { "middle" }).as_bytes()));
        let replay = json!({"monitor": "c10fp", "op": what, "state": state_desc, "failing_step": k, "of": steps});
        match out {
            Out::Ok(()) => {
                if fired > 0 {
                    st.findings.push(Finding {
                        prop: "C10".into(),
                        signature: format!("C10:injected-failure-swallowed:{what}"),
                        detail: format!("{what} in state {state_desc}: step {k}/{steps} failed but the call returned Ok"),
                        replay,
                    });
                }
                continue;
            }
            Out::Panic(msg) => {
                st.findings.push(Finding {
                    prop: "C10".into(),
                    signature: format!("C10:panic-on-injected-failure:{what}"),
                    detail: format!("{what} step {k}/{steps}: {msg}"),
                    replay,
                });
                continue;
            }
            Out::Err(_) => {}
        }
        let after_m = canon(&m);
        if after_m != before_m {
            let (b, a) = (before_m.as_ref(), after_m.as_ref());
            st.findings.push(Finding {
                prop: "C10".into(),
                signature: format!("C10:msk-changed-by-failed-call:{what}:injected"),
                detail: format!(
                    "{what} in state {state_desc}: fallible step {k} of {steps} failed, the call returned an error, and the master key changed ({} → {} rights, {} → {} secrets, {} → {} users)",
                    b.map_or(0, |w| w.chains.len()),
                    a.map_or(0, |w| w.chains.len()),
                    b.map_or(0, |w| w.chains.iter().map(|c| c.1.len()).sum::<usize>()),
                    a.map_or(0, |w| w.chains.iter().map(|c| c.1.len()).sum::<usize>()),
                    b.map_or(0, |w| w.users.len()),
                    a.map_or(0, |w| w.users.len()),
                ),
                replay,
            });
            continue;
        }
        let after_u = u.as_ref().and_then(|x| ser(x).ok());
        if after_u != before_u {
            st.findings.push(Finding {
                prop: "C10".into(),
                signature: format!("C10:usk-changed-by-failed-call:{what}:injected"),
                detail: format!("{what} in state {state_desc}: step {k}/{steps} failed and the user key changed"),
                replay,
            });
            continue;
        }
        st.bump("state_unchanged_after_injected_failure");
    }
}

#[cfg(feature = "hooks")]
pub fn run(tier: &str, seed: u64) -> Stats {
    let mut st = Stats::default();
    let mut rng = Rng::new(seed);
    let rounds = if tier == "thorough" { 600 } else { 60 };
    for round in 0..rounds {
        // a state: 2-3 dimensions, random hints, some users, some revisions
        let cc = Covercrypt::default();
        let Some((mut msk, _)) = call(|| cc.setup()).ok() else { continue };
        let n_dims = rng.range(1, 3);
        let dims = ["D", "H", "E"];
        let mut attrs: Vec<(String, String)> = vec![];
        for d in dims.iter().take(n_dims) {
            let ordered = rng.chance(1, 2);
            let _ = if ordered { msk.access_structure.add_hierarchy(d.to_string()) } else { msk.access_structure.add_anarchy(d.to_string()) };
            for a in ["A", "B", "C"].iter().take(rng.range(1, 3)) {
                let _ = msk.access_structure.add_attribute(QualifiedAttribute::new(d, a), hint(rng.chance(1, 3)), None);
                attrs.push((d.to_string(), a.to_string()));
            }
        }
        if call(|| cc.update_msk(&mut msk)).ok().is_none() {
            continue;
        }
        let pol = |rng: &mut Rng| -> String {
            match rng.below(4) {
                0 => "*".to_string(),
                1 => {
                    let (d, a) = rng.pick(&attrs);
                    format!("{d}::{a}")
                }
                _ => {
                    let (d, a) = rng.pick(&attrs).clone();
                    let others: Vec<&(String, String)> = attrs.iter().filter(|x| x.0 != d).collect();
                    if others.is_empty() {
                        format!("{d}::{a}")
                    } else {
                        let (d2, a2) = rng.pick(&others);
                        format!("{d}::{a} && {d2}::{a2}")
                    }
                }
            }
        };
        let ptxt = pol(&mut rng);
        let ap = AccessPolicy::parse(&ptxt).unwrap();
        let older_msk = ser(&msk).ok();
        let Some(usk) = call(|| cc.generate_user_secret_key(&mut msk, &ap)).ok() else { continue };
        // natural error with a valid signature: the id is unknown to an older serialization of the
        // same master key; the refused key and that master key must stay as they are
        if let Some(ob) = &older_msk {
            for (keep, stale) in [(true, false), (false, false), (true, true), (false, true)] {
                let (Some(mut old), Some(before_u)) = (de::<MasterSecretKey>(ob).ok(), ser(&usk).ok()) else { continue };
                if stale {
                    // the key is also out of date for that master key: its rights were re-keyed there
                    let _ = call(|| cc.rekey(&mut old, &ap));
                }
                let before_m = canon(&old);
                let mut u = usk.clone();
                let out = call(|| cc.refresh_usk(&mut old, &mut u, keep));
                st.bump("natural_error_refresh_unknown_id");
                st.shapes.insert(fnv(format!("unknown-id|keep={keep}|stale={stale}|{n_dims}").as_bytes()));
                if let Out::Err(_) = out {
                    if ser(&u).ok().as_ref() != Some(&before_u) {
                        st.findings.push(Finding {
                            prop: "C10".into(),
                            signature: format!("C10:usk-changed-by-failed-call:refresh:unknown-id"),
                            detail: format!("refresh(keep={keep}) of a key whose id the master key does not know returned an error and changed the key ({} → {} bytes)", before_u.len(), ser(&u).ok().map_or(0, |b| b.len())),
                            replay: json!({"monitor": "c10fp", "op": "refresh-unknown-id", "keep": keep}),
                        });
                    } else if canon(&old) != before_m {
                        st.findings.push(Finding {
                            prop: "C10".into(),
                            signature: "C10:msk-changed-by-failed-call:refresh:unknown-id".into(),
                            detail: "the master key changed".into(),
                            replay: json!({"monitor": "c10fp", "op": "refresh-unknown-id", "keep": keep}),
                        });
                    } else {
                        st.bump("failed_call_state_unchanged");
                    }
                }
            }
        }
        if rng.chance(1, 2) {
            let _ = call(|| cc.rekey(&mut msk, &ap));
        }
        let Some(usk_bytes) = ser(&usk).ok() else { continue };
        let desc = format!("{n_dims}dims/{}attrs/key={ptxt}", attrs.len());

        // --- rekey over a policy
        let rp = pol(&mut rng);
        let rap = AccessPolicy::parse(&rp).unwrap();
        let Some(mb) = ser(&msk).ok() else { continue };
        enumerate_failures(&mut st, "rekey", &format!("{desc}/rekey={rp}"), &mb, None, &|cc, m, _| cc.rekey(m, &rap).map(|_| ()));

        // --- keygen
        enumerate_failures(&mut st, "keygen", &format!("{desc}/keygen={rp}"), &mb, None, &|cc, m, _| cc.generate_user_secret_key(m, &rap).map(|_| ()));

        // --- refresh (both flags)
        for keep in [true, false] {
            enumerate_failures(&mut st, "refresh", &format!("{desc}/keep={keep}"), &mb, Some(&usk_bytes), &|cc, m, u| cc.refresh_usk(m, u.unwrap(), keep));
        }

        // --- update after adding an attribute (several new rights) and deleting another
        let mut m2 = de::<MasterSecretKey>(&mb).ok().unwrap();
        let (d, _) = rng.pick(&attrs).clone();
        let _ = m2.access_structure.add_attribute(QualifiedAttribute::new(&d, "New"), hint(rng.chance(1, 2)), None);
        if attrs.len() > 1 && rng.chance(1, 2) {
            let (dd, aa) = rng.pick(&attrs).clone();
            let _ = m2.access_structure.del_attribute(&QualifiedAttribute::new(&dd, &aa));
        }
        if let Some(mb2) = ser(&m2).ok() {
            enumerate_failures(&mut st, "update", &format!("{desc}/add={d}::New"), &mb2, None, &|cc, m, _| cc.update_msk(m).map(|_| ()));
        }
        if st.samples.len() < 3 {
            st.samples.push(json!({"round": round, "state": desc, "rekey_policy": rp, "fallible_steps_so_far": st.get("fallible_steps_found"), "injected_so_far": st.get("injected_failures")}));
        }
    }
    // a wide state: > 256 rights touched by one rekey / update (position of the failing right among
    // hundreds)
    let wide_rounds = if tier == "thorough" { 3 } else { 1 };
    for _ in 0..wide_rounds {
        let cc = Covercrypt::default();
        let Some((mut msk, _)) = call(|| cc.setup()).ok() else { continue };
        let _ = msk.access_structure.add_anarchy("W".into());
        let _ = msk.access_structure.add_hierarchy("H".into());
        for i in 0..140 {
            let _ = msk.access_structure.add_attribute(QualifiedAttribute::new("W", &format!("a{i}")), hint(false), None);
        }
        let _ = msk.access_structure.add_attribute(QualifiedAttribute::new("H", "L"), hint(false), None);
        if call(|| cc.update_msk(&mut msk)).ok().is_none() {
            continue;
        }
        let star = AccessPolicy::parse("*").unwrap();
        let Some(mb) = ser(&msk).ok() else { continue };
        enumerate_failures(&mut st, "rekey", "wide/282rights/rekey=*", &mb, None, &|cc, m, _| cc.rekey(m, &star).map(|_| ()));
        // natural failure: one right of the rekeyed set is not in the master key yet
        let mut m2 = de::<MasterSecretKey>(&mb).ok().unwrap();
        let _ = m2.access_structure.add_attribute(QualifiedAttribute::new("W", "new"), hint(false), None);
        let before = canon(&m2);
        for _ in 0..8 {
            let out = call(|| cc.rekey(&mut m2, &star));
            st.bump("natural_error_wide_rekey");
            st.shapes.insert(fnv(b"wide-natural-rekey"));
            if let Out::Err(_) = out {
                if canon(&m2) != before {
                    st.findings.push(Finding {
                        prop: "C10".into(),
                        signature: "C10:msk-changed-by-failed-call:rekey:wide".into(),
                        detail: "rekey over 284 rights, one of which the master key does not hold, returned an error and changed the master key".into(),
                        replay: json!({"monitor": "c10fp", "op": "wide-rekey"}),
                    });
                    break;
                }
                st.bump("failed_call_state_unchanged");
            }
        }
        if let Some(mb2) = ser(&{
            let mut m3 = de::<MasterSecretKey>(&mb).ok().unwrap();
            let _ = m3.access_structure.add_attribute(QualifiedAttribute::new("H", "T"), hint(false), Some("L"));
            m3
        })
        .ok()
        {
            enumerate_failures(&mut st, "update", "wide/add=H::T(141 new rights)", &mb2, None, &|cc, m, _| cc.update_msk(m).map(|_| ()));
        }
    }
    structure_edit_errors(&mut st);
    let mut seen = std::collections::BTreeSet::new();
    st.findings.retain(|f| seen.insert(f.signature.clone()));
    st
}

/// Natural failures of the structure-editing calls on the master key's access structure, among
/// them the one no API history reaches: the attribute id counter is exhausted (a master key read
/// from bytes whose counter is at its maximum). An `Err` must leave the master key as it was.
#[cfg(feature = "hooks")]
fn structure_edit_errors(st: &mut Stats) {
    let cc = Covercrypt::default();
    let Some((mut msk, _)) = call(|| cc.setup()).ok() else { return };
    let _ = msk.access_structure.add_anarchy("D".into());
    let _ = msk.access_structure.add_hierarchy("H".into());
    for (d, a, after) in [("D", "A", None), ("D", "B", None), ("H", "L", None), ("H", "M", Some("L")), ("H", "T", Some("M"))] {
        let _ = msk.access_structure.add_attribute(QualifiedAttribute::new(d, a), hint(a == "T"), after);
    }
    if call(|| cc.update_msk(&mut msk)).ok().is_none() {
        return;
    }
    let Some(mb) = ser(&msk).ok() else { return };
    let Ok(w) = WMsk::parse(&mb) else { return };
    let mut states: Vec<(&str, Vec<u8>)> = vec![("regular", mb.clone())];
    if w.structure.next_id.is_some() {
        let mut m = w.clone();
        m.structure.next_id = Some(u64::MAX);
        states.push(("id-counter-exhausted", m.write()));
        let mut m = w.clone();
        m.structure.next_id = Some(u64::MAX - 1);
        states.push(("id-counter-one-left", m.write()));
    }
    type Edit = (&'static str, Box<dyn Fn(&mut MasterSecretKey) -> Result<(), cosmian_cover_crypt::Error>>);
    let q = QualifiedAttribute::new;
    let edits: Vec<Edit> = vec![
        ("add_attribute(anarchy,new)", Box::new(move |m| m.access_structure.add_attribute(q("D", "New"), hint(false), None))),
        ("add_attribute(hierarchy,new,bottom)", Box::new(move |m| m.access_structure.add_attribute(q("H", "New"), hint(true), None))),
        ("add_attribute(hierarchy,new,after)", Box::new(move |m| m.access_structure.add_attribute(q("H", "New"), hint(false), Some("L")))),
        ("add_attribute(hierarchy,new,after-top)", Box::new(move |m| m.access_structure.add_attribute(q("H", "New2"), hint(false), Some("T")))),
        ("add_attribute(duplicate)", Box::new(move |m| m.access_structure.add_attribute(q("D", "A"), hint(false), None))),
        ("add_attribute(unknown-dimension)", Box::new(move |m| m.access_structure.add_attribute(q("Nope", "A"), hint(false), None))),
        ("add_attribute(unknown-after)", Box::new(move |m| m.access_structure.add_attribute(q("H", "New3"), hint(false), Some("Ghost")))),
        ("add_attribute(after-in-anarchy)", Box::new(move |m| m.access_structure.add_attribute(q("D", "New4"), hint(false), Some("A")))),
        ("del_attribute(unknown)", Box::new(move |m| m.access_structure.del_attribute(&q("D", "Ghost")))),
        ("del_attribute(unknown-dimension)", Box::new(move |m| m.access_structure.del_attribute(&q("Nope", "A")))),
        ("disable_attribute(unknown)", Box::new(move |m| m.access_structure.disable_attribute(&q("H", "Ghost")))),
        ("rename_attribute(to-existing)", Box::new(move |m| m.access_structure.rename_attribute(&q("D", "A"), "B".to_string()))),
        ("rename_attribute(unknown)", Box::new(move |m| m.access_structure.rename_attribute(&q("D", "Ghost"), "X".to_string()))),
        ("add_anarchy(existing)", Box::new(move |m| m.access_structure.add_anarchy("D".into()))),
        ("add_hierarchy(existing)", Box::new(move |m| m.access_structure.add_hierarchy("D".into()))),
        ("del_dimension(unknown)", Box::new(move |m| m.access_structure.del_dimension("Nope"))),
    ];
    for (state, bytes) in &states {
        for (name, edit) in &edits {
            let Some(mut m) = de::<MasterSecretKey>(bytes).ok() else {
                st.bump("structure_edit_state_not_loadable");
                break;
            };
            let before = canon(&m);
            // twice: a retry after a failure must not find a half-applied first attempt
            for attempt in 0..2 {
                let out = call(|| edit(&mut m));
                st.bump("structure_edit_calls");
                match out {
                    Out::Err(_) => {
                        st.bump("natural_error_structure_edit");
                        st.shapes.insert(fnv(format!("structure-edit|{state}|{name}").as_bytes()));
                        if canon(&m) != before {
                            st.findings.push(Finding {
                                prop: "C10".into(),
                                signature: format!("C10:msk-changed-by-failed-call:{}:{state}", name.split('(').next().unwrap_or(name)),
                                detail: format!("{name} on a master key in state '{state}' returned an error (attempt {attempt}) and changed the master key"),
                                replay: json!({"monitor": "c10fp", "op": name, "state": state}),
                            });
                            break;
                        }
                        st.bump("failed_call_state_unchanged");
                    }
                    Out::Panic(p) => {
                        st.findings.push(Finding {
                            prop: "C09".into(),
                            signature: format!("C09:panic:{}", name.split('(').next().unwrap_or(name)),
                            detail: format!("{name} in state '{state}' panicked: {p}"),
                            replay: json!({"monitor": "c10fp", "op": name, "state": state}),
                        });
                        break;
                    }
                    Out::Ok(_) => break,
                }
            }
        }
    }
}

#[cfg(not(feature = "hooks"))]
pub fn run(_tier: &str, _seed: u64) -> Stats {
    let mut st = Stats::default();
    st.inconclusive.push("built without the verif-hooks feature: failpoints unavailable".into());
    st
}
