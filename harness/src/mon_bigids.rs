//! C01/C02 on large attribute identifiers: right names are LEB128 lists of attribute ids, so ids
//! that need two or three bytes (>= 128, >= 16384) and pairs of ids that differ by a power of two
//! (128, 256, 8192 ...) are their own input class. The id counter is pushed with add/delete cycles
//! (ids are never reused); attributes are planted at chosen ids in an unordered and in a
//! hierarchical dimension; the full key × encapsulation table is checked, and the right names in the
//! master key are compared with an independent LEB128 encoding of the observed ids.

use std::collections::BTreeSet;

use serde_json::json;

use crate::{
    real::{self, *},
    report::{Finding, Stats},
    rng::fnv,
    wire::{self, WMsk},
};

fn fail(st: &mut Stats, prop: &str, sig: &str, detail: String) {
    st.findings.push(Finding {
        prop: prop.into(),
        signature: format!("{prop}:big-ids:{sig}"),
        detail,
        replay: json!({"monitor": "bigids"}),
    });
}

/// Advances the id counter of `msk`'s structure to exactly `target` (next id to be allocated).
fn advance(msk: &mut MasterSecretKey, next: &mut u64, target: u64) {
    while *next < target {
        let name = format!("tmp{next}");
        let _ = msk.access_structure.add_attribute(QualifiedAttribute::new("Pad", &name), hint(false), None);
        let _ = msk.access_structure.del_attribute(&QualifiedAttribute::new("Pad", &name));
        *next += 1;
    }
}

pub fn run(prop: &str, tier: &str) -> Stats {
    let mut st = Stats::default();
    // ids planted in the unordered dimension D and the hierarchy H (low rank first)
    let plans: Vec<(Vec<u64>, Vec<u64>)> = if tier == "thorough" {
        vec![
            (vec![5, 133, 261, 389, 517], vec![600, 728, 856]),
            (vec![127, 128, 255, 256, 383, 384], vec![16383, 16384, 16512]),
            (vec![1000, 1128, 9192, 17384], vec![20000, 20128, 36384]),
        ]
    } else {
        vec![(vec![5, 133, 261, 389], vec![600, 728]), (vec![255, 256, 384], vec![16383, 16384, 16512])]
    };
    for (d_ids, h_ids) in plans {
        let cc = Covercrypt::default();
        let Out::Ok((mut msk, _)) = call(|| cc.setup()) else { continue };
        let _ = msk.access_structure.add_anarchy("Pad".into());
        let _ = msk.access_structure.add_anarchy("D".into());
        let _ = msk.access_structure.add_hierarchy("H".into());
        let mut next = 0u64;
        let mut all: Vec<u64> = d_ids.iter().chain(h_ids.iter()).copied().collect();
        all.sort_unstable();
        let mut last_h: Option<String> = None;
        for id in all {
            advance(&mut msk, &mut next, id);
            if d_ids.contains(&id) {
                let _ = msk.access_structure.add_attribute(QualifiedAttribute::new("D", &format!("d{id}")), hint(id % 3 == 0), None);
            } else {
                let name = format!("h{id}");
                let _ = msk.access_structure.add_attribute(QualifiedAttribute::new("H", &name), hint(false), last_h.as_deref());
                last_h = Some(name);
            }
            next += 1;
        }
        let Out::Ok(mpk) = call(|| cc.update_msk(&mut msk)) else {
            fail(&mut st, "C09", "update-fails", String::new());
            continue;
        };
        // observed ids and right names
        let Some(w) = ser(&msk).ok().and_then(|b| WMsk::parse(&b).ok()) else {
            fail(&mut st, "C13", "wire-reader-rejects-msk", String::new());
            continue;
        };
        let mut ok_ids = true;
        for id in d_ids.iter() {
            if w.structure.attr_id("D", &format!("d{id}")) != Some(*id) {
                ok_ids = false;
            }
        }
        for id in h_ids.iter() {
            if w.structure.attr_id("H", &format!("h{id}")) != Some(*id) {
                ok_ids = false;
            }
        }
        if !ok_ids {
            st.inconclusive.push("could not plant the attributes at the chosen ids (id allocation is not sequential)".into());
            continue;
        }
        let mut expected: BTreeSet<Vec<u8>> = BTreeSet::new();
        for d in std::iter::once(None).chain(d_ids.iter().map(Some)) {
            for h in std::iter::once(None).chain(h_ids.iter().map(Some)) {
                let ids: Vec<u64> = d.into_iter().chain(h).copied().collect();
                expected.insert(wire::right_bytes(&ids));
            }
        }
        let got: BTreeSet<Vec<u8>> = w.chains.iter().map(|c| c.0.clone()).collect();
        st.bump("right_name_sets_compared");
        if got != expected {
            fail(
                &mut st,
                prop,
                "right-names-differ-from-leb128-of-ids",
                format!(
                    "ids D{d_ids:?} H{h_ids:?}: the master key holds {} rights, the ids give {} distinct right names; unexpected {:?}",
                    got.len(),
                    expected.len(),
                    got.difference(&expected).map(|r| wire::hex(r)).take(4).collect::<Vec<_>>()
                ),
            );
        }
        // behaviour: keys per attribute, encapsulations per attribute and per pair
        let mut keys: Vec<(String, u64, bool, UserSecretKey)> = vec![];
        for id in &d_ids {
            let p = format!("D::d{id}");
            if let Out::Ok(u) = call(|| cc.generate_user_secret_key(&mut msk, &AccessPolicy::parse(&p).unwrap())) {
                keys.push((p, *id, false, u));
            }
        }
        for id in &h_ids {
            let p = format!("H::h{id}");
            if let Out::Ok(u) = call(|| cc.generate_user_secret_key(&mut msk, &AccessPolicy::parse(&p).unwrap())) {
                keys.push((p, *id, true, u));
            }
        }
        let mut encs: Vec<(String, Option<u64>, Option<u64>, XEnc, [u8; 32])> = vec![];
        for d in std::iter::once(None).chain(d_ids.iter().map(Some)) {
            for h in std::iter::once(None).chain(h_ids.iter().map(Some)) {
                let p = match (d, h) {
                    (None, None) => "*".to_string(),
                    (Some(d), None) => format!("D::d{d}"),
                    (None, Some(h)) => format!("H::h{h}"),
                    (Some(d), Some(h)) => format!("D::d{d} && H::h{h}"),
                };
                match call(|| cc.encaps(&mpk, &AccessPolicy::parse(&p).unwrap())) {
                    Out::Ok((s, x)) => {
                        // through bytes, as the other side would get it
                        let x = ser(&x).ok().and_then(|b| de::<XEnc>(&b).ok()).unwrap_or(x);
                        encs.push((p, d.copied(), h.copied(), x, real::secret_bytes(&s)));
                    }
                    o => fail(&mut st, "C09", "encaps-fails", format!("{p}: {}", o.describe())),
                }
            }
        }
        for (kp, kid, k_is_h, u) in &keys {
            let u = ser(u).ok().and_then(|b| de::<UserSecretKey>(&b).ok()).unwrap_or_else(|| u.clone());
            for (ep, ed, eh, x, s) in &encs {
                // cover relation: the key names one attribute; a target attribute of that
                // dimension must be it (D) or at most it (H); the other dimension is free
                let expect = if *k_is_h { eh.map_or(true, |e| e <= *kid) } else { ed.map_or(true, |e| e == *kid) };
                st.bump("decaps_evaluated");
                st.shapes.insert(fnv(format!("{kid}|{ed:?}|{eh:?}").as_bytes()));
                match (expect, call(|| cc.decaps(&u, x))) {
                    (true, Out::Ok(Some(k))) if real::secret_bytes(&k) == *s => st.bump("must_open_ok"),
                    (false, Out::Ok(None)) => st.bump("must_not_open_ok"),
                    (true, o) => fail(&mut st, "C01", "authorized-key-refused", format!("key {kp} on {ep}: {}", match o { Out::Ok(Some(_)) => "wrong secret".into(), Out::Ok(None) => "None".into(), x => x.describe() })),
                    (false, o) => fail(&mut st, "C02", "unauthorized-key-opens", format!("key {kp} on {ep}: {}", if o.is_ok() { "a secret came out".to_string() } else { o.describe() })),
                }
            }
        }
        st.sample(json!({"ids_in_unordered_dimension": d_ids, "ids_in_hierarchy_low_to_high": h_ids, "rights": got.len(), "keys": keys.len(), "encapsulations": encs.len()}), 3);
    }
    // keep only this property's findings (the other half of the table belongs to the sibling check)
    let mut foreign = 0;
    st.findings.retain(|f| {
        let own = f.prop == prop;
        if !own {
            foreign += 1;
        }
        own
    });
    if foreign > 0 {
        st.foreign.insert("big-ids findings of other properties".into(), foreign);
    }
    let mut seen = BTreeSet::new();
    st.findings.retain(|f| seen.insert(f.signature.clone()));
    st
}
