//! C17 — every issued user key is registered and satisfies the tracing relation.
//!
//! Scalars and points are read from the serialized keys by the independent wire reader; the
//! arithmetic (Σ aᵢ·tᵢ = s, Pᵢ = tᵢ·G) is done in the harness directly on the curve library.

use std::collections::BTreeSet;

use serde_json::json;

use crate::{
    arith,
    real::*,
    report::{Finding, Stats},
    rng::{fnv, Rng},
    wire::{WMpk, WMsk, WUsk},
};

fn fail(st: &mut Stats, sig: &str, detail: String, seed: u64) {
    st.findings.push(Finding {
        prop: "C17".into(),
        signature: format!("C17:{sig}"),
        detail,
        replay: json!({"monitor": "c17", "history_seed": seed}),
    });
}

struct H {
    cc: Covercrypt,
    msk: MasterSecretKey,
    usks: Vec<UserSecretKey>,
    issued: usize,
}

fn check_all(h: &mut H, st: &mut Stats, what: &str, seed: u64) -> bool {
    let Some(mb) = ser(&h.msk).ok() else { return false };
    let mw = match WMsk::parse(&mb) {
        Ok(w) => w,
        Err(e) => {
            fail(st, "wire-reader-rejects-msk", e, seed);
            return false;
        }
    };
    let t_sk: Vec<Vec<u8>> = mw.tracers.iter().map(|t| t.0.clone()).collect();
    let t_pk: Vec<Vec<u8>> = mw.tracers.iter().map(|t| t.1.clone()).collect();
    for (i, (sk, pk)) in mw.tracers.iter().enumerate() {
        st.bump("relations_checked");
        if arith::base_mul(sk).as_ref() != Some(pk) {
            fail(st, "tracer-point-is-not-t-times-G", format!("tracer {i} after {what}"), seed);
            return false;
        }
    }
    if mw.users.len() != h.issued {
        fail(st, &format!("registered-users-count:{what}"), format!("{} ids registered, {} keys issued", mw.users.len(), h.issued), seed);
        return false;
    }
    let mpk = match call(|| h.msk.mpk()) {
        Out::Ok(m) => m,
        o => {
            fail(st, "mpk-derivation-fails", o.describe(), seed);
            return false;
        }
    };
    match ser(&mpk).ok().map(|b| WMpk::parse(&b)) {
        Some(Ok(pw)) => {
            st.bump("relations_checked");
            if pw.tpk != t_pk {
                fail(st, "mpk-tracing-points-differ", format!("after {what}"), seed);
                return false;
            }
        }
        _ => {
            fail(st, "wire-reader-rejects-mpk", String::new(), seed);
            return false;
        }
    }
    let mut ids = BTreeSet::new();
    for (i, u) in h.usks.iter().enumerate() {
        let Some(ub) = ser(u).ok() else { return false };
        let uw = match WUsk::parse(&ub) {
            Ok(w) => w,
            Err(e) => {
                fail(st, "wire-reader-rejects-usk", e, seed);
                return false;
            }
        };
        st.add("relations_checked", 4);
        if !mw.users.contains(&uw.id) {
            fail(st, &format!("id-not-registered:{what}"), format!("key {i} of {} after {what}", h.usks.len()), seed);
            return false;
        }
        if !ids.insert(uw.id.clone()) {
            fail(st, "duplicate-id", format!("two live keys share an id after {what}"), seed);
            return false;
        }
        if arith::inner_product(&uw.id, &t_sk).as_ref() != Some(&mw.s) {
            fail(st, &format!("tracing-relation-broken:{what}"), format!("key {i}: sum a_i*t_i != s ({} markers, {} tracers)", uw.id.len(), t_sk.len()), seed);
            return false;
        }
        if uw.ps != t_pk {
            fail(st, &format!("usk-tracing-points-differ:{what}"), format!("key {i}"), seed);
            return false;
        }
    }
    true
}

fn history(seed: u64, st: &mut Stats, max_users: usize) {
    let mut rng = Rng::new(seed);
    let cc = Covercrypt::default();
    let Some((mut msk, _)) = call(|| cc.setup()).ok() else { return };
    {
        let s = &mut msk.access_structure;
        let _ = s.add_anarchy("D".into());
        let _ = s.add_hierarchy("H".into());
        for (d, a, hy, after) in [("D", "A", false, None), ("D", "B", true, None), ("H", "L", false, None), ("H", "T", false, Some("L"))] {
            let _ = s.add_attribute(QualifiedAttribute::new(d, a), hint(hy), after);
        }
    }
    if call(|| cc.update_msk(&mut msk)).ok().is_none() {
        st.inconclusive.push("fixture update failed".into());
        return;
    }
    // two thirds of the histories run at a higher tracing level: the API creates level 1 only (two
    // tracers); a master key with more tracers is what `MasterSecretKey::deserialize` accepts when
    // (t, t·G) pairs are appended to the tracer list. No key has been issued yet, so the relation
    // holds vacuously for the crafted key.
    let extra = [0usize, 1, 3][rng.below(3)];
    if extra > 0 {
        let crafted = ser(&msk).ok().and_then(|b| WMsk::parse(&b).ok()).and_then(|mut w| {
            for _ in 0..extra {
                let mut t = rng.bytes(32);
                // below 2^248 in either byte order: canonical for both curves
                t[0] = 0;
                t[31] = 0;
                t[15] |= 1;
                let p = arith::base_mul(&t)?;
                w.tracers.push((t, p));
            }
            de::<MasterSecretKey>(&w.write()).ok()
        });
        match crafted {
            Some(m) => msk = m,
            None => {
                st.inconclusive.push("cannot build a master key with more tracers".into());
                return;
            }
        }
    }
    st.bump(&format!("histories_with_{}_tracers", 2 + extra));
    st.shapes.insert(fnv(format!("tracers-{}", 2 + extra).as_bytes()));
    let pols = ["D::A", "D::B && H::L", "H::T", "*", "D::A || D::B", "H::L && D::A"];
    let mut h = H { cc, msk, usks: vec![], issued: 0 };
    let n_ops = rng.range(10, 10 + 2 * max_users);
    let mut kinds = String::new();
    // the first snapshot is taken before any key is issued (empty registry)
    let mut old_msk: Option<Vec<u8>> = ser(&h.msk).ok();
    let mut unknown_tests = 0;
    for _ in 0..n_ops {
        let k = rng.weighted(&[6, 5, 2, 2, 1, 2, 2, 2]);
        kinds.push((b'a' + k as u8) as char);
        match k {
            0 => {
                if h.usks.len() >= max_users {
                    continue;
                }
                let ap = AccessPolicy::parse(pols[rng.below(pols.len())]).unwrap();
                match call(|| h.cc.generate_user_secret_key(&mut h.msk, &ap)) {
                    Out::Ok(u) => {
                        h.usks.push(u);
                        h.issued += 1;
                        st.bump("keygens");
                        if !check_all(&mut h, st, "keygen", seed) {
                            return;
                        }
                    }
                    o => {
                        fail(st, "keygen-fails", o.describe(), seed);
                        return;
                    }
                }
            }
            1 => {
                if h.usks.is_empty() {
                    continue;
                }
                let i = rng.below(h.usks.len());
                let keep = rng.chance(1, 2);
                let mut u = h.usks[i].clone();
                match call(|| h.cc.refresh_usk(&mut h.msk, &mut u, keep)) {
                    Out::Ok(()) => {
                        h.usks[i] = u;
                        st.bump("refreshes");
                        if !check_all(&mut h, st, "refresh", seed) {
                            return;
                        }
                    }
                    o => {
                        fail(st, "refresh-of-issued-key-fails", o.describe(), seed);
                        return;
                    }
                }
            }
            2 => {
                // master key through bytes
                let Some(b) = ser(&h.msk).ok() else { return };
                match de::<MasterSecretKey>(&b) {
                    Out::Ok(m) => {
                        h.msk = m;
                        st.bump("msk_roundtrips");
                        if !check_all(&mut h, st, "msk-roundtrip", seed) {
                            return;
                        }
                    }
                    o => {
                        fail(st, "msk-roundtrip-fails", o.describe(), seed);
                        return;
                    }
                }
            }
            3 => {
                let ap = AccessPolicy::parse(pols[rng.below(pols.len())]).unwrap();
                let _ = call(|| h.cc.rekey(&mut h.msk, &ap));
            }
            4 => {
                if !h.usks.is_empty() {
                    let i = rng.below(h.usks.len());
                    if let Some(u) = ser(&h.usks[i]).ok().and_then(|b| de::<UserSecretKey>(&b).ok()) {
                        h.usks[i] = u;
                    }
                }
            }
            7 => {
                // a tampered copy of an issued key (same known id, bad signature) is refused; the
                // genuine key must stay registered and refreshable
                if h.usks.is_empty() {
                    continue;
                }
                let i = rng.below(h.usks.len());
                let Some(mut b) = ser(&h.usks[i]).ok() else { continue };
                let n = b.len();
                b[n - 1 - rng.below(32)] ^= 1 << rng.below(8);
                let Out::Ok(mut forged) = de::<UserSecretKey>(&b) else { continue };
                let out = call(|| h.cc.refresh_usk(&mut h.msk, &mut forged, rng.chance(1, 2)));
                st.bump("forged_refresh_attempts");
                if out.is_ok() {
                    fail(st, "tampered-key-accepted", "a key with an altered signature was refreshed".into(), seed);
                    return;
                }
                if !check_all(&mut h, st, "refused-forgery", seed) {
                    return;
                }
                let mut u = h.usks[i].clone();
                if !call(|| h.cc.refresh_usk(&mut h.msk, &mut u, true)).is_ok() {
                    fail(st, "genuine-key-refused-after-a-forgery-was-refused", "the issued key no longer refreshes".into(), seed);
                    return;
                }
                h.usks[i] = u;
            }
            5 => {
                // remember the master key as it is now (an older serialization later)
                if old_msk.is_none() || rng.chance(1, 4) {
                    old_msk = ser(&h.msk).ok();
                }
            }
            _ => {
                // a key issued by the *current* master key is unknown to an *older serialization*
                // of the same master key (same signing key, id not registered there)
                let Some(ob) = &old_msk else { continue };
                let Out::Ok(mut old) = de::<MasterSecretKey>(ob) else { continue };
                let old_users = WMsk::parse(ob).map(|w| w.users).unwrap_or_default();
                for u in &h.usks {
                    let Some(ub) = ser(u).ok() else { continue };
                    let Ok(uw) = WUsk::parse(&ub) else { continue };
                    if old_users.contains(&uw.id) {
                        continue;
                    }
                    let mut copy = u.clone();
                    let keep = rng.chance(1, 2);
                    let out = call(|| h.cc.refresh_usk(&mut old, &mut copy, keep));
                    st.bump("unknown_id_refresh_attempts");
                    unknown_tests += 1;
                    if out.is_ok() {
                        fail(st, "unknown-id-accepted", format!("a key whose id the master key does not know was refreshed (keep={keep})"), seed);
                        return;
                    }
                    if out.is_panic() {
                        fail(st, "unknown-id-refresh-panics", out.describe(), seed);
                        return;
                    }
                    // refused: the id must still be unknown afterwards (a retry is refused too, and
                    // the registry did not grow)
                    let users_after = ser(&old).ok().and_then(|b| WMsk::parse(&b).ok()).map(|w| w.users.len());
                    if users_after != Some(old_users.len()) {
                        fail(st, "refused-refresh-registers-the-unknown-id", format!("registry went from {} to {:?} ids", old_users.len(), users_after), seed);
                        return;
                    }
                    let mut copy2 = u.clone();
                    if call(|| h.cc.refresh_usk(&mut old, &mut copy2, keep)).is_ok() {
                        fail(st, "unknown-id-accepted-on-retry", "the second attempt with the same unknown key succeeded".into(), seed);
                        return;
                    }
                    st.bump("unknown_id_refresh_attempts");
                    break;
                }
            }
        }
    }
    st.bump("histories");
    st.add("max_users_seen", 0);
    let users = h.usks.len();
    if users >= 2 && unknown_tests > 0 {
        st.shapes.insert(fnv(format!("{users}|{kinds}").as_bytes()));
    }
    if st.samples.len() < 2 {
        st.samples.push(json!({"history_seed": seed, "users": users, "ops": kinds, "legend": "a=keygen b=refresh c=msk-roundtrip d=rekey e=usk-roundtrip f=snapshot-msk g=refresh-against-older-msk h=refused-forgery-then-genuine-refresh", "unknown_id_attempts": unknown_tests}));
    }
}

/// One master key with 300 users (registry counts crossing 127/128 and 255/256): every relation is
/// re-checked at the boundary counts, then some keys are refreshed and the master key round-tripped.
fn many_users(st: &mut Stats, seed: u64) {
    let cc = Covercrypt::default();
    let Some((mut msk, _)) = call(|| cc.setup()).ok() else { return };
    let _ = msk.access_structure.add_anarchy("D".into());
    let _ = msk.access_structure.add_attribute(QualifiedAttribute::new("D", "A"), hint(false), None);
    if call(|| cc.update_msk(&mut msk)).ok().is_none() {
        return;
    }
    let ap = AccessPolicy::parse("D::A").unwrap();
    let mut h = H { cc, msk, usks: vec![], issued: 0 };
    for n in 1..=300usize {
        match call(|| h.cc.generate_user_secret_key(&mut h.msk, &ap)) {
            Out::Ok(u) => {
                h.usks.push(u);
                h.issued += 1;
            }
            o => {
                fail(st, "keygen-fails", format!("user {n}: {}", o.describe()), seed);
                return;
            }
        }
        if [1, 2, 127, 128, 129, 255, 256, 257, 300].contains(&n) {
            if !check_all(&mut h, st, "keygen", seed) {
                return;
            }
            if let Some(m) = ser(&h.msk).ok().and_then(|b| de::<MasterSecretKey>(&b).ok()) {
                h.msk = m;
                if !check_all(&mut h, st, "msk-roundtrip", seed) {
                    return;
                }
            } else {
                fail(st, "msk-roundtrip-fails", format!("{n} users"), seed);
                return;
            }
        }
    }
    for i in [0usize, 126, 127, 128, 254, 255, 256, 299] {
        let mut u = h.usks[i].clone();
        match call(|| h.cc.refresh_usk(&mut h.msk, &mut u, i % 2 == 0)) {
            Out::Ok(()) => h.usks[i] = u,
            o => {
                fail(st, "refresh-of-issued-key-fails", format!("user {i} of 300: {}", o.describe()), seed);
                return;
            }
        }
    }
    if check_all(&mut h, st, "refresh", seed) {
        st.shapes.insert(fnv(b"300-users"));
        st.bump("many_users_scenarios");
    }
}

/// A registry of tens of thousands of ids: whatever rare coincidence the set's hashing / equality
/// has (a lookup that takes a new id for a known one), one insertion in a few thousand meets it.
/// Only counts are compared (ids registered in the serialized master key vs keys issued); the ids
/// of a sample of keys are then looked up and the keys refreshed.
fn registry_stress(st: &mut Stats, seed: u64, n: usize) {
    let cc = Covercrypt::default();
    let Some((mut msk, _)) = call(|| cc.setup()).ok() else { return };
    let _ = msk.access_structure.add_anarchy("D".into());
    let _ = msk.access_structure.add_attribute(QualifiedAttribute::new("D", "A"), hint(false), None);
    if call(|| cc.update_msk(&mut msk)).ok().is_none() {
        return;
    }
    let ap = AccessPolicy::parse("D::A").unwrap();
    let mut sample: Vec<UserSecretKey> = vec![];
    let mut ids: BTreeSet<Vec<Vec<u8>>> = BTreeSet::new();
    for i in 0..n {
        match call(|| cc.generate_user_secret_key(&mut msk, &ap)) {
            Out::Ok(u) => {
                if let Some(Ok(w)) = ser(&u).ok().map(|b| WUsk::parse(&b)) {
                    ids.insert(w.id);
                }
                if i % 64 == 0 {
                    sample.push(u);
                }
            }
            o => {
                fail(st, "keygen-fails", format!("user {i} of a large registry: {}", o.describe()), seed);
                return;
            }
        }
    }
    st.add("registry_stress_keys_issued", n as u64);
    let Some(Ok(mw)) = ser(&msk).ok().map(|b| WMsk::parse(&b)) else {
        fail(st, "wire-reader-rejects-msk", "large registry".into(), seed);
        return;
    };
    st.bump("relations_checked");
    if ids.len() != n {
        fail(st, "duplicate-id", format!("{} distinct ids among {n} issued keys", ids.len()), seed);
        return;
    }
    let registered: BTreeSet<Vec<Vec<u8>>> = mw.users.iter().cloned().collect();
    if registered.len() != n || registered != ids {
        let missing = ids.difference(&registered).count();
        fail(st, "registered-users-count:large-registry", format!("{} ids registered for {n} issued keys ({missing} issued ids are missing)", registered.len()), seed);
        return;
    }
    // the copy read back from bytes registers the same ids
    if let Some(m2) = ser(&msk).ok().and_then(|b| de::<MasterSecretKey>(&b).ok()) {
        if let Some(Ok(w2)) = ser(&m2).ok().map(|b| WMsk::parse(&b)) {
            st.bump("relations_checked");
            if w2.users.iter().cloned().collect::<BTreeSet<_>>() != ids {
                fail(st, "registered-users-count:large-registry-roundtrip", format!("{} ids after a round trip of a master key with {n} users", w2.users.len()), seed);
                return;
            }
        }
        msk = m2;
    }
    for (i, u) in sample.iter_mut().enumerate() {
        st.bump("relations_checked");
        if let o @ (Out::Err(_) | Out::Panic(_)) = call(|| cc.refresh_usk(&mut msk, u, i % 2 == 0)) {
            fail(st, "refresh-of-issued-key-fails", format!("key {} of a registry of {n}: {}", i * 64, o.describe()), seed);
            return;
        }
    }
    st.shapes.insert(fnv(b"large-registry"));
}

/// The registry is data: whatever the tracers next to it are (more of them, fewer of them — a
/// master key whose tracing level was changed while some keys have not been refreshed yet), reading
/// a master key from bytes must load every id the bytes hold.
fn registry_across_level_change(st: &mut Stats, seed: u64) {
    let mut rng = Rng::new(seed ^ 0x1e7e1);
    let cc = Covercrypt::default();
    let Some((mut msk, _)) = call(|| cc.setup()).ok() else { return };
    let _ = msk.access_structure.add_anarchy("D".into());
    let _ = msk.access_structure.add_attribute(QualifiedAttribute::new("D", "A"), hint(false), None);
    if call(|| cc.update_msk(&mut msk)).ok().is_none() {
        return;
    }
    let ap = AccessPolicy::parse("D::A").unwrap();
    let tracer = |rng: &mut Rng| -> Option<(Vec<u8>, Vec<u8>)> {
        let mut t = rng.bytes(32);
        t[0] = 0;
        t[31] = 0;
        t[15] |= 1;
        let p = arith::base_mul(&t)?;
        Some((t, p))
    };
    // level 1 -> 2 (one more tracer), keys issued at level 2, then back to level 1 by dropping the
    // first tracer, then up again
    let mut edits: Vec<(&str, Box<dyn Fn(&mut WMsk, &mut Rng) -> Option<()>>)> = vec![];
    edits.push(("tracer-appended", Box::new(move |w, rng| { w.tracers.push(tracer(rng)?); Some(()) })));
    edits.push(("first-tracer-removed", Box::new(|w, _| { if w.tracers.len() > 2 { w.tracers.remove(0); } Some(()) })));
    edits.push(("last-tracer-removed", Box::new(|w, _| { if w.tracers.len() > 2 { w.tracers.pop(); } Some(()) })));
    let mut issued = 0usize;
    for round in 0..6 {
        for _ in 0..5 {
            if call(|| cc.generate_user_secret_key(&mut msk, &ap)).is_ok() {
                issued += 1;
            }
        }
        let (name, edit) = &edits[[0usize, 1, 0, 0, 2, 1][round]];
        let Some(Ok(mut w)) = ser(&msk).ok().map(|b| WMsk::parse(&b)) else { return };
        let before: BTreeSet<Vec<Vec<u8>>> = w.users.iter().cloned().collect();
        if edit(&mut w, &mut rng).is_none() {
            return;
        }
        let Out::Ok(m2) = de::<MasterSecretKey>(&w.write()) else {
            // refusing such bytes altogether is not this property's business
            st.bump("level_change_bytes_refused");
            continue;
        };
        let Some(Ok(w2)) = ser(&m2).ok().map(|b| WMsk::parse(&b)) else { return };
        let after: BTreeSet<Vec<Vec<u8>>> = w2.users.iter().cloned().collect();
        st.bump("relations_checked");
        if after != before {
            fail(st, &format!("registered-ids-lost-when-reading-master-key:{name}"), format!("{} of {} registered ids survive reading a master key whose tracer list was edited ({name}; {issued} keys issued)", after.len(), before.len()), seed);
            return;
        }
        msk = m2;
        st.shapes.insert(fnv(format!("level-change|{name}").as_bytes()));
    }
}

pub fn run(tier: &str, seed: u64, threads: usize) -> Stats {
    let n: u64 = if tier == "thorough" { 4000 } else { 320 };
    let max_users = if tier == "thorough" { 60 } else { 24 };
    let total = std::sync::Arc::new(std::sync::Mutex::new(Stats::default()));
    let next = std::sync::Arc::new(std::sync::atomic::AtomicU64::new(0));
    let mut hs = vec![];
    for _ in 0..threads {
        let total = total.clone();
        let next = next.clone();
        hs.push(std::thread::spawn(move || {
            let mut st = Stats::default();
            loop {
                let i = next.fetch_add(1, std::sync::atomic::Ordering::SeqCst);
                if i >= n {
                    break;
                }
                history(seed.wrapping_mul(7919).wrapping_add(i.wrapping_mul(0x9E37_79B9_7F4A_7C15)), &mut st, max_users);
            }
            total.lock().unwrap().merge(st);
        }));
    }
    // large registries, next to the histories
    let (n_reg, reg_size) = if tier == "thorough" { (8u64, 40_000usize) } else { (2, 20_000) };
    for r in 0..n_reg {
        let total = total.clone();
        hs.push(std::thread::spawn(move || {
            let mut st = Stats::default();
            registry_stress(&mut st, seed.wrapping_add(r), reg_size);
            total.lock().unwrap().merge(st);
        }));
    }
    for h in hs {
        let _ = h.join();
    }
    let mut st = std::mem::take(&mut *total.lock().unwrap());
    many_users(&mut st, seed);
    registry_across_level_change(&mut st, seed);
    st
}
