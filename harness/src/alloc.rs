//! Counting global allocator: live bytes, peak, largest single request, and a refusal limit so that
//! an absurd request is attributed (logged on stderr) before the process aborts.

use std::{
    alloc::{GlobalAlloc, Layout, System},
    sync::atomic::{AtomicUsize, Ordering::Relaxed},
};

pub struct Counting;

static LIVE: AtomicUsize = AtomicUsize::new(0);
static PEAK: AtomicUsize = AtomicUsize::new(0);
static MAX_REQ: AtomicUsize = AtomicUsize::new(0);
static LIMIT: AtomicUsize = AtomicUsize::new(usize::MAX);

fn note(size: usize) {
    let live = LIVE.fetch_add(size, Relaxed) + size;
    PEAK.fetch_max(live, Relaxed);
    MAX_REQ.fetch_max(size, Relaxed);
}

fn refuse(size: usize) {
    // async-signal-safe: a plain write(2) on stderr
    let mut buf = [0u8; 48];
    let prefix = b"ALLOC-REFUSED ";
    buf[..prefix.len()].copy_from_slice(prefix);
    let mut n = size;
    let mut digits = [0u8; 20];
    let mut k = 0;
    loop {
        digits[k] = b'0' + (n % 10) as u8;
        n /= 10;
        k += 1;
        if n == 0 {
            break;
        }
    }
    let mut p = prefix.len();
    for i in (0..k).rev() {
        buf[p] = digits[i];
        p += 1;
    }
    buf[p] = b'\n';
    p += 1;
    unsafe {
        libc::write(2, buf.as_ptr() as *const libc::c_void, p);
    }
}

unsafe impl GlobalAlloc for Counting {
    unsafe fn alloc(&self, l: Layout) -> *mut u8 {
        if l.size() > LIMIT.load(Relaxed) {
            MAX_REQ.fetch_max(l.size(), Relaxed);
            refuse(l.size());
            return std::ptr::null_mut();
        }
        let p = System.alloc(l);
        if !p.is_null() {
            note(l.size());
        }
        p
    }
    unsafe fn alloc_zeroed(&self, l: Layout) -> *mut u8 {
        if l.size() > LIMIT.load(Relaxed) {
            MAX_REQ.fetch_max(l.size(), Relaxed);
            refuse(l.size());
            return std::ptr::null_mut();
        }
        let p = System.alloc_zeroed(l);
        if !p.is_null() {
            note(l.size());
        }
        p
    }
    unsafe fn dealloc(&self, p: *mut u8, l: Layout) {
        LIVE.fetch_sub(l.size(), Relaxed);
        System.dealloc(p, l)
    }
    unsafe fn realloc(&self, p: *mut u8, l: Layout, new: usize) -> *mut u8 {
        if new > LIMIT.load(Relaxed) {
            MAX_REQ.fetch_max(new, Relaxed);
            refuse(new);
            return std::ptr::null_mut();
        }
        let q = System.realloc(p, l, new);
        if !q.is_null() {
            LIVE.fetch_sub(l.size(), Relaxed);
            note(new);
        }
        q
    }
}

/// Starts a measurement window: returns the live byte count at its start.
pub fn window_start() -> usize {
    let live = LIVE.load(Relaxed);
    PEAK.store(live, Relaxed);
    MAX_REQ.store(0, Relaxed);
    live
}

/// (peak live bytes above the start of the window, largest single request) since `window_start`.
pub fn window_end(start_live: usize) -> (usize, usize) {
    (PEAK.load(Relaxed).saturating_sub(start_live), MAX_REQ.load(Relaxed))
}

pub fn set_limit(bytes: usize) {
    LIMIT.store(bytes, Relaxed);
}

/// CPU time consumed by the calling thread, in seconds.
pub fn thread_cpu_s() -> f64 {
    let mut ts = libc::timespec { tv_sec: 0, tv_nsec: 0 };
    unsafe {
        libc::clock_gettime(libc::CLOCK_THREAD_CPUTIME_ID, &mut ts);
    }
    ts.tv_sec as f64 + ts.tv_nsec as f64 * 1e-9
}
