//! Findings, counters and the partial-evidence file a monitor run produces.

use std::collections::{BTreeMap, BTreeSet};

use serde_json::{json, Value};

#[derive(Clone, Debug)]
pub struct Finding {
    pub prop: String,
    /// Stable, monitor-computed signature (assertion id + cause class), never a random history.
    pub signature: String,
    pub detail: String,
    /// Everything needed to re-run (profile, seed, ...), as JSON.
    pub replay: Value,
}

#[derive(Clone, Debug, Default)]
pub struct Stats {
    pub counters: BTreeMap<String, u64>,
    /// hashes of distinct non-trivial shapes
    pub shapes: BTreeSet<u64>,
    /// hashes of distinct abstract states visited
    pub states: BTreeSet<u64>,
    pub samples: Vec<Value>,
    pub findings: Vec<Finding>,
    /// findings that belong to another property (the history was abandoned there)
    pub foreign: BTreeMap<String, u64>,
    pub foreign_detail: BTreeMap<String, String>,
    pub inconclusive: Vec<String>,
}

impl Stats {
    pub fn bump(&mut self, k: &str) {
        *self.counters.entry(k.to_string()).or_insert(0) += 1;
    }
    pub fn add(&mut self, k: &str, n: u64) {
        *self.counters.entry(k.to_string()).or_insert(0) += n;
    }
    pub fn get(&self, k: &str) -> u64 {
        self.counters.get(k).copied().unwrap_or(0)
    }
    pub fn sample(&mut self, v: Value, cap: usize) {
        if self.samples.len() < cap {
            self.samples.push(v);
        }
    }
    pub fn merge(&mut self, o: Stats) {
        for (k, v) in o.counters {
            *self.counters.entry(k).or_insert(0) += v;
        }
        self.shapes.extend(o.shapes);
        self.states.extend(o.states);
        for s in o.samples {
            if self.samples.len() < 6 {
                self.samples.push(s);
            }
        }
        self.findings.extend(o.findings);
        for (k, v) in o.foreign {
            *self.foreign.entry(k).or_insert(0) += v;
        }
        for (k, v) in o.foreign_detail {
            self.foreign_detail.entry(k).or_insert(v);
        }
        self.inconclusive.extend(o.inconclusive);
    }

    pub fn to_json(&self, prop: &str, config: &str) -> Value {
        // findings are de-duplicated by signature, keeping the first replay of each
        let mut by_sig: BTreeMap<String, (u64, &Finding)> = BTreeMap::new();
        for f in &self.findings {
            by_sig
                .entry(f.signature.clone())
                .and_modify(|e| e.0 += 1)
                .or_insert((1, f));
        }
        json!({
            "property": prop,
            "config": config,
            "counters": self.counters,
            "shapes": self.shapes.iter().map(|h| format!("{h:016x}")).collect::<Vec<_>>(),
            "states": self.states.len(),
            "samples": self.samples,
            "foreign_findings": self.foreign,
            "foreign_detail": self.foreign_detail,
            "inconclusive": self.inconclusive,
            "findings": by_sig.iter().map(|(sig, (n, f))| json!({
                "property": f.prop,
                "signature": sig,
                "count": n,
                "detail": f.detail,
                "replay": f.replay,
            })).collect::<Vec<_>>(),
        })
    }
}
