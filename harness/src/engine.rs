//! Lock-step engine: one API call on the real code → the same step on the model → assertions.
//!
//! The history generator only looks at the *model* state, so a history is a pure function of
//! (profile, seed): a replay file is just those two plus the number of operations.

use std::collections::{BTreeMap, BTreeSet};

use serde_json::{json, Value};

use crate::{
    model::*,
    real::{self, *},
    report::{Finding, Stats},
    rng::{fnv, Rng},
    wire::{self, WMpk, WMsk, WSk, WStruct, WUsk, WXenc},
};

#[derive(Clone, Debug)]
pub struct Weights {
    pub add_dim: u32,
    pub del_dim: u32,
    pub add_attr: u32,
    pub del_attr: u32,
    pub rename: u32,
    pub disable: u32,
    pub update: u32,
    pub rekey: u32,
    pub prune: u32,
    pub keygen: u32,
    pub refresh: u32,
    pub encaps: u32,
    pub recaps: u32,
    pub roundtrip: u32,
    pub derive_mpk: u32,
    pub forged: u32,
    pub matrix: u32,
}

impl Weights {
    pub const fn zero() -> Self {
        Self {
            add_dim: 0,
            del_dim: 0,
            add_attr: 0,
            del_attr: 0,
            rename: 0,
            disable: 0,
            update: 0,
            rekey: 0,
            prune: 0,
            keygen: 0,
            refresh: 0,
            encaps: 0,
            recaps: 0,
            roundtrip: 0,
            derive_mpk: 0,
            forged: 0,
            matrix: 0,
        }
    }
}

#[derive(Clone, Debug)]
pub struct Profile {
    /// property the behavioural assertions are attributed to
    pub prop: &'static str,
    pub name: &'static str,
    pub max_dims: usize,
    pub max_attrs: usize,
    pub ops: (usize, usize),
    pub w: Weights,
    /// probability (in %) that an argument is deliberately invalid
    pub invalid_pct: u32,
    pub shadow_refresh: bool,
    pub unicode_names: bool,
    /// enumerate every right of Ω as an encryption target at the start (C01/C02/C06)
    pub omega_targets: bool,
    pub max_usks: usize,
    pub max_encs: usize,
    /// all-classic / all-hybrid / mixed choice is random when true, else mostly classic (speed)
    pub random_hints: bool,
    /// build the initial structure through a history of its own (extra attributes deleted or
    /// renamed before the first update): hierarchies whose order results from deletions
    pub edited_initial_structure: bool,
    /// a third of the histories start with ~130 add/delete cycles: ids of two LEB128 bytes
    pub id_churn: bool,
}

#[derive(Clone, Debug)]
pub enum RT {
    Msk,
    Mpk,
    Usk,
    Enc,
    Structure,
}

#[derive(Clone, Debug)]
pub enum Op {
    AddDim { name: String, ordered: bool },
    DelDim { name: String },
    AddAttr { dim: String, name: String, hybrid: bool, after: Option<String> },
    DelAttr { dim: String, name: String },
    Rename { dim: String, old: String, new: String },
    Disable { dim: String, name: String },
    Update,
    Rekey { pol: Pol, text: String },
    Prune { pol: Pol, text: String },
    Keygen { pol: Pol, text: String },
    Refresh { usk: usize, keep: bool },
    Encaps { mpk: usize, pol: Pol, text: String },
    Recaps { enc: usize },
    RoundTrip { what: RT, idx: usize },
    DeriveMpk,
    Forged { usk: usize, keep: bool, bit: usize, kind: u8 },
    Matrix,
}

impl Op {
    pub fn describe(&self) -> String {
        match self {
            Op::AddDim { name, ordered } => format!("add_dim({name},{})", if *ordered { "hierarchy" } else { "anarchy" }),
            Op::DelDim { name } => format!("del_dim({name})"),
            Op::AddAttr { dim, name, hybrid, after } => format!(
                "add_attr({dim}::{name},{}{})",
                if *hybrid { "hybrid" } else { "classic" },
                after.as_ref().map(|a| format!(",after={a}")).unwrap_or_default()
            ),
            Op::DelAttr { dim, name } => format!("del_attr({dim}::{name})"),
            Op::Rename { dim, old, new } => format!("rename({dim}::{old}->{new})"),
            Op::Disable { dim, name } => format!("disable({dim}::{name})"),
            Op::Update => "update_msk".into(),
            Op::Rekey { text, .. } => format!("rekey({text:?})"),
            Op::Prune { text, .. } => format!("prune({text:?})"),
            Op::Keygen { text, .. } => format!("keygen({text:?})"),
            Op::Refresh { usk, keep } => format!("refresh(usk{usk},keep={keep})"),
            Op::Encaps { mpk, text, .. } => format!("encaps(mpk{mpk},{text:?})"),
            Op::Recaps { enc } => format!("recaps(enc{enc})"),
            Op::RoundTrip { what, idx } => format!("roundtrip({what:?}{idx})"),
            Op::DeriveMpk => "msk.mpk()".into(),
            Op::Forged { usk, keep, bit, kind } => format!(
                "refresh(forged usk{usk} {},keep={keep})",
                match kind {
                    0 => format!("bit{bit} flipped"),
                    1 => "signature stripped".to_string(),
                    2 => "signature stripped and a chain removed".to_string(),
                    3 => "a chain duplicated".to_string(),
                    _ => "rights of another key appended, signature stripped".to_string(),
                }
            ),
            Op::Matrix => "decaps-matrix".into(),
        }
    }
    pub fn kind(&self) -> &'static str {
        match self {
            Op::AddDim { .. } => "add_dim",
            Op::DelDim { .. } => "del_dim",
            Op::AddAttr { .. } => "add_attr",
            Op::DelAttr { .. } => "del_attr",
            Op::Rename { .. } => "rename",
            Op::Disable { .. } => "disable",
            Op::Update => "update",
            Op::Rekey { .. } => "rekey",
            Op::Prune { .. } => "prune",
            Op::Keygen { .. } => "keygen",
            Op::Refresh { .. } => "refresh",
            Op::Encaps { .. } => "encaps",
            Op::Recaps { .. } => "recaps",
            Op::RoundTrip { .. } => "roundtrip",
            Op::DeriveMpk => "derive_mpk",
            Op::Forged { .. } => "forged_refresh",
            Op::Matrix => "matrix",
        }
    }
}

pub struct UskSlot {
    pub usk: UserSecretKey,
    pub m: UskM,
    pub pol: Pol,
    pub refreshed: u32,
    pub born_edit_epoch: u32,
}

pub struct EncSlot {
    pub enc: XEnc,
    pub secret: [u8; 32],
    pub m: EncM,
    pub pol: Pol,
    pub from_recaps: bool,
    pub edit_epoch: u32,
}

pub struct MpkSlot {
    pub mpk: MasterPublicKey,
    pub m: MpkM,
}

/// Flags describing what a history contained (used for the non-triviality rules).
#[derive(Clone, Debug, Default)]
pub struct Flags {
    pub add_after_delete: bool,
    pub add_after_rename: bool,
    pub enc_on_new_attr_old_key: bool,
    pub unequal_chains_at_decaps: bool,
    pub anchor_pruned_refresh: bool,
    pub mpk_ops_after_disable: u32,
    pub roundtrips: u32,
    pub recaps_ok: u32,
    pub recaps_err: u32,
    pub recaps_partial: bool,
    pub err_classes: BTreeSet<String>,
    pub mixed_flavour_enc: bool,
    pub hybrid_enc: bool,
    pub classic_enc: bool,
    pub deleted_something: bool,
    pub renamed_something: bool,
    pub disabled_effective: bool,
    pub edit_epoch: u32,
}

pub struct World {
    pub p: Profile,
    pub cc: Covercrypt,
    pub msk: MasterSecretKey,
    pub mskm: MskM,
    pub mpks: Vec<MpkSlot>,
    pub usks: Vec<UskSlot>,
    pub encs: Vec<EncSlot>,
    /// observed id of each live token
    pub tok_id: BTreeMap<Tok, u64>,
    /// observed id of each retired token
    pub retired: BTreeMap<Tok, u64>,
    /// bytes of the secret of each version (read from the master key when it appears)
    pub ver_sk: BTreeMap<u64, WSk>,
    pub id_collision: &'static str,
    pub stats: Stats,
    pub flags: Flags,
    pub log: Vec<String>,
    pub stopped: bool,
    pub replay: Value,
    pub last_update_failed_born_disabled: bool,
    pub struct_shape: String,
}

const DIM_NAMES: &[&str] = &["D", "H", "E", "S", "Dept"];
const DIM_NAMES_UNI: &[&str] = &["D", "H", "E", "Sécu", "部門"];
/// 131 bytes: the length prefix of this name takes two LEB128 bytes.
const LONG: &str = "Long-0123456789012345678901234567890123456789012345678901234567890123456789012345678901234567890123456789012345678901234567890123456";
const ATTR_NAMES: &[&str] = &["A", "B", "C", "L", "T", "N", "X", "Y", "Low Sec", "Q", "R", "M", LONG];
const ATTR_NAMES_UNI: &[&str] = &["A", "B", "C", "L", "T", "N", "é", "日本", "Low Sec", "Q", "ß", "M", LONG];

impl World {
    pub fn new(p: Profile, replay: Value) -> Option<Self> {
        Self::with_tracers(p, replay, 0, 0)
    }

    /// `extra` > 0: the history runs on a master key with that many more tracers than `setup`
    /// creates (tracing level 2, 3): (t, t·G) pairs appended through the wire writer before any
    /// key exists, then read back with `MasterSecretKey::deserialize`.
    pub fn with_tracers(p: Profile, replay: Value, extra: usize, seed: u64) -> Option<Self> {
        let cc = Covercrypt::default();
        let (mut msk, mut mpk) = match call(|| cc.setup()) {
            Out::Ok(x) => x,
            _ => return None,
        };
        let mut crafted = 0;
        if extra > 0 {
            let mut rng = crate::rng::Rng::new(seed ^ 0x7ace_7ace);
            let m2 = ser(&msk).ok().and_then(|b| WMsk::parse(&b).ok()).and_then(|mut w| {
                for _ in 0..extra {
                    let mut t = rng.bytes(32);
                    t[0] = 0;
                    t[31] = 0;
                    t[15] |= 1;
                    let pt = crate::arith::base_mul(&t)?;
                    w.tracers.push((t, pt));
                }
                de::<MasterSecretKey>(&w.write()).ok()
            });
            if let Some(m2) = m2 {
                if let Out::Ok(k2) = call(|| m2.mpk()) {
                    msk = m2;
                    mpk = k2;
                    crafted = extra;
                }
            }
        }
        let mut mskm = MskM::default();
        mskm.update().ok()?;
        let mpkm = mskm.mpk();
        let mut w = Self {
            p,
            cc,
            msk,
            mskm,
            mpks: vec![MpkSlot { mpk, m: mpkm }],
            usks: vec![],
            encs: vec![],
            tok_id: BTreeMap::new(),
            retired: BTreeMap::new(),
            ver_sk: BTreeMap::new(),
            id_collision: "none",
            stats: Stats::default(),
            flags: Flags::default(),
            log: vec![],
            stopped: false,
            replay,
            last_update_failed_born_disabled: false,
            struct_shape: String::new(),
        };
        w.stats.bump(&format!("histories_with_{}_tracers", 2 + crafted));
        w.after_msk_change("setup");
        Some(w)
    }

    // -------------------------------------------------------------------------------------
    // findings
    // -------------------------------------------------------------------------------------

    pub fn finding(&mut self, prop: &str, signature: String, detail: String) {
        let mut replay = self.replay.clone();
        if let Some(o) = replay.as_object_mut() {
            o.insert("ops_executed".into(), json!(self.log.len()));
            let tail: Vec<String> = self.log.iter().rev().take(40).rev().cloned().collect();
            o.insert("history_tail".into(), json!(tail));
        }
        self.stats.findings.push(Finding {
            prop: prop.to_string(),
            signature: format!("{prop}:{signature}"),
            detail,
            replay,
        });
        // A wire-level observation that belongs to another property (activation flags, flavours,
        // freshness, tracing points, state changed by a failed call) is recorded but does not end
        // the history: its consequences for *this* profile's property must still be observable.
        let soft = prop != self.p.prop
            && (signature.starts_with("msk-activation-flag")
                || signature.starts_with("mpk-publishes-disabled-right")
                || signature.starts_with("msk-flavour")
                || signature.starts_with("mpk-flavour")
                || signature.starts_with("usk-flavour")
                || signature.starts_with("msk-duplicate-secret")
                || signature.starts_with("msk-changed-by-failed-call")
                || signature.starts_with("usk-changed-by-failed-call"));
        if !soft {
            self.stopped = true;
        }
    }

    fn cause(&self) -> String {
        format!(
            "idcoll={},edits={},del={},ren={}",
            self.id_collision,
            self.flags.edit_epoch > 0,
            self.flags.deleted_something,
            self.flags.renamed_something
        )
    }

    // -------------------------------------------------------------------------------------
    // wire observations
    // -------------------------------------------------------------------------------------

    fn msk_wire(&mut self) -> Option<WMsk> {
        let b = match ser(&self.msk) {
            Out::Ok(b) => b,
            o => {
                self.finding("C13", "msk-serialize-failed".into(), o.describe());
                return None;
            }
        };
        match WMsk::parse(&b) {
            Ok(w) => Some(w),
            Err(e) => {
                self.finding("C13", "wire-reader-rejects-msk".into(), e);
                None
            }
        }
    }

    fn right_bytes(&self, r: &RightT) -> Option<Vec<u8>> {
        let mut ids = vec![];
        for t in r {
            ids.push(*self.tok_id.get(t).or_else(|| self.retired.get(t))?);
        }
        Some(wire::right_bytes(&ids))
    }

    /// Refreshes the observed id map from the structure inside the master key.
    fn observe_ids(&mut self, st: &WStruct) {
        let mut coll = "none";
        for (dn, a) in self.mskm.st.all_attrs() {
            if let Some(id) = st.attr_id(&dn, &a.name) {
                match self.tok_id.get(&a.tok) {
                    Some(old) if *old != id => {
                        coll = "changed";
                    }
                    Some(_) => {}
                    None => {
                        if self.tok_id.values().any(|v| *v == id) {
                            coll = "live";
                        } else if self.retired.values().any(|v| *v == id) && coll == "none" {
                            coll = "retired";
                        }
                        self.tok_id.insert(a.tok, id);
                    }
                }
            }
        }
        if coll != "none" && (self.id_collision == "none" || coll == "live") {
            self.id_collision = coll;
            self.stats.bump(&format!("id_collision_{coll}"));
        }
    }

    /// Model-free state invariant (C11): in the serialized master key, a secret is hybridized iff
    /// one of the attributes of its right is declared hybridized in the structure stored next to it
    /// (rights naming attributes the structure no longer has are skipped). Usable even when the
    /// model has lost track of the implementation.
    fn flavour_invariant(&mut self, what: &str) {
        let Some(w) = self.msk_wire() else { return };
        let mut hint_of: BTreeMap<u64, u64> = BTreeMap::new();
        for d in &w.structure.dims {
            for a in &d.attrs {
                hint_of.insert(a.id, a.hint);
            }
        }
        for (r, chain) in &w.chains {
            let mut c = wire::Cur::new(r);
            let mut ids = vec![];
            let mut ok = true;
            while c.remaining() > 0 {
                match c.leb("id") {
                    Ok(id) => ids.push(id),
                    Err(_) => {
                        ok = false;
                        break;
                    }
                }
            }
            if !ok || ids.iter().any(|i| !hint_of.contains_key(i)) {
                continue;
            }
            let expected = ids.iter().any(|i| hint_of[i] == 1);
            if let Some((pos, _)) = chain.iter().enumerate().find(|(_, (_, s))| s.hybrid != expected) {
                let detail = format!("after {what}: right {:?} has a secret (revision {pos}) with hybridized={} although its attributes' hints give {expected}", ids, !expected);
                self.stats.findings.push(Finding {
                    prop: "C11".into(),
                    signature: format!("C11:msk-flavour-invariant:{what}"),
                    detail,
                    replay: self.replay.clone(),
                });
                self.stopped = true;
                return;
            }
        }
        self.stats.bump("flavour_invariant_checks");
    }

    /// To be called after every successful mutation of the master key: structural invariants
    /// against the model, learning the bytes of new versions.
    fn after_msk_change(&mut self, what: &str) {
        let Some(w) = self.msk_wire() else { return };
        self.observe_ids(&w.structure);
        // structure agrees with the model (names, order in hierarchies, hints, statuses)
        let mut exp_dims: Vec<(Vec<u8>, u64, Vec<(Vec<u8>, u64, u64)>)> = vec![];
        for (dn, d) in &self.mskm.st.dims {
            let mut attrs: Vec<(Vec<u8>, u64, u64)> = d
                .attrs
                .iter()
                .map(|a| (a.name.as_bytes().to_vec(), a.hybrid as u64, (!a.disabled) as u64))
                .collect();
            if !d.ordered {
                attrs.sort();
            }
            exp_dims.push((dn.as_bytes().to_vec(), d.ordered as u64, attrs));
        }
        let mut got_dims: Vec<(Vec<u8>, u64, Vec<(Vec<u8>, u64, u64)>)> = w
            .structure
            .dims
            .iter()
            .map(|d| {
                let mut attrs: Vec<(Vec<u8>, u64, u64)> =
                    d.attrs.iter().map(|a| (a.name.clone(), a.hint, a.status)).collect();
                if d.ordered == 0 {
                    attrs.sort();
                }
                (d.name.clone(), d.ordered, attrs)
            })
            .collect();
        got_dims.sort();
        exp_dims.sort();
        if got_dims != exp_dims {
            let p = self.p.prop;
            self.finding(
                p,
                format!("structure-differs-from-model:{what}"),
                format!("after {what}: serialized structure {got_dims:?} but the edits so far give {exp_dims:?}"),
            );
            return;
        }
        // rights and chains
        let mut exp: BTreeMap<Vec<u8>, (&RightT, &Vec<SecretM>)> = BTreeMap::new();
        let mut ambiguous = false;
        for (r, chain) in &self.mskm.secrets {
            match self.right_bytes(r) {
                Some(b) => {
                    if exp.insert(b, (r, chain)).is_some() {
                        ambiguous = true;
                    }
                }
                None => ambiguous = true,
            }
        }
        let got: BTreeMap<Vec<u8>, &Vec<(u64, WSk)>> =
            w.chains.iter().map(|(r, c)| (r.clone(), c)).collect();
        let cause = self.cause();
        let prop = self.p.prop;
        if ambiguous || got.keys().collect::<Vec<_>>() != exp.keys().collect::<Vec<_>>() {
            let detail = format!(
                "after {what}: master key holds {} rights, model expects {} (id map {:?}, retired {:?}); got {:?} expected {:?}",
                got.len(),
                self.mskm.secrets.len(),
                self.tok_id,
                self.retired,
                got.keys().map(|k| wire::hex(k)).collect::<Vec<_>>(),
                exp.keys().map(|k| wire::hex(k)).collect::<Vec<_>>()
            );
            self.finding(prop, format!("msk-rights-set:{what}:{cause}"), detail);
            return;
        }
        let mut learn: Vec<(u64, WSk)> = vec![];
        let mut problems: Vec<(&'static str, String, String)> = vec![];
        for (rb, (r, mchain)) in &exp {
            let wchain = got[rb];
            if wchain.len() != mchain.len() {
                problems.push((
                    prop,
                    format!("msk-chain-length:{what}"),
                    format!("right {r:?}: {} secrets in the master key, expected {}", wchain.len(), mchain.len()),
                ));
                continue;
            }
            for (i, (sm, (flag, ws))) in mchain.iter().zip(wchain.iter()).enumerate() {
                if (*flag == 1) != sm.activated || *flag > 1 {
                    problems.push((
                        "C06",
                        format!("msk-activation-flag:{what}:pos{}", i.min(1)),
                        format!("right {r:?} revision {i}: activation flag {flag}, expected {}", sm.activated),
                    ));
                }
                if ws.hybrid != sm.hybrid {
                    problems.push((
                        "C11",
                        format!("msk-flavour:{what}"),
                        format!("right {r:?} revision {i}: hybridized={} expected {}", ws.hybrid, sm.hybrid),
                    ));
                }
                match self.ver_sk.get(&sm.ver) {
                    None => {
                        if self.ver_sk.values().any(|k| k.sk == ws.sk) || learn.iter().any(|(_, k)| k.sk == ws.sk) {
                            problems.push((
                                prop,
                                format!("msk-new-version-is-an-old-secret:{what}"),
                                format!("right {r:?} revision {i}: the secret of a new version equals an already known secret (chain order or freshness broken)"),
                            ));
                        }
                        learn.push((sm.ver, ws.clone()))
                    }
                    Some(known) => {
                        // the crate may drop the ML-KEM part (never through this API); the
                        // scalar identifies the version
                        if known.sk != ws.sk {
                            problems.push((
                                prop,
                                format!("msk-secret-changed:{what}"),
                                format!("right {r:?} revision {i}: stored secret is not the one created for that version"),
                            ));
                        }
                    }
                }
            }
        }
        for (v, s) in learn {
            self.ver_sk.insert(v, s);
        }
        // freshness of every secret across the whole master key
        let mut seen = BTreeSet::new();
        for (_, c) in &w.chains {
            for (_, s) in c {
                if !seen.insert(s.sk.clone()) {
                    problems.push((
                        "C16",
                        format!("msk-duplicate-secret:{what}"),
                        "two entries of the master key share a scalar".to_string(),
                    ));
                }
                if s.hybrid && !seen.insert(s.dk.clone()) {
                    problems.push((
                        "C16",
                        format!("msk-duplicate-secret:{what}"),
                        "two entries of the master key share an ML-KEM decapsulation key".to_string(),
                    ));
                }
            }
        }
        self.stats.bump("msk_wire_checks");
        if let Some((p, s, d)) = problems.into_iter().next() {
            // what was observed is the *serialized* master key: before blaming the object, check
            // that its serialization is faithful (otherwise this is a serialization defect, C13)
            let faithful = match ser(&self.msk) {
                Out::Ok(b) => matches!(de::<MasterSecretKey>(&b), Out::Ok(x) if x == self.msk),
                _ => false,
            };
            if faithful {
                self.finding(p, s, d);
            } else {
                self.finding(
                    "C13",
                    format!("roundtrip-not-equal:msk:probe-after-{}", s.split(':').next().unwrap_or("")),
                    format!("the serialized master key disagrees with the operations performed ({d}) and deserialize(serialize(msk)) != msk: the serialization is not faithful"),
                );
            }
        }
    }

    fn check_mpk(&mut self, idx: usize, what: &str) {
        let b = match ser(&self.mpks[idx].mpk) {
            Out::Ok(b) => b,
            o => {
                self.finding("C13", "mpk-serialize-failed".into(), o.describe());
                return;
            }
        };
        let w = match WMpk::parse(&b) {
            Ok(w) => w,
            Err(e) => {
                self.finding("C13", "wire-reader-rejects-mpk".into(), e);
                return;
            }
        };
        let m = &self.mpks[idx].m;
        let mut exp: BTreeMap<Vec<u8>, (RightT, bool)> = BTreeMap::new();
        for (r, (_, h)) in &m.keys {
            if let Some(b) = self.right_bytes(r) {
                exp.insert(b, (r.clone(), *h));
            }
        }
        let got: BTreeMap<Vec<u8>, bool> = w.keys.iter().map(|(r, k)| (r.clone(), k.hybrid)).collect();
        let cause = self.cause();
        // a right published although disabled is the C06 event; anything else belongs to the profile
        let extra: Vec<&Vec<u8>> = got.keys().filter(|k| !exp.contains_key(*k)).collect();
        let missing: Vec<&Vec<u8>> = exp.keys().filter(|k| !got.contains_key(*k)).collect();
        if !extra.is_empty() || !missing.is_empty() {
            // is an extra right one that the model holds but considers deactivated?
            let mut deactivated_published = false;
            for (r, chain) in &self.mskm.secrets {
                if !chain[0].activated {
                    if let Some(b) = self.right_bytes(r) {
                        if extra.contains(&&b) {
                            deactivated_published = true;
                        }
                    }
                }
            }
            let (prop, sig) = if deactivated_published {
                ("C06", format!("mpk-publishes-disabled-right:{what}"))
            } else {
                (self.p.prop, format!("mpk-rights-set:{what}:{cause}"))
            };
            self.finding(
                prop,
                sig,
                format!(
                    "public key from {what}: unexpected rights {:?}, missing rights {:?}",
                    extra.iter().map(|k| wire::hex(k)).collect::<Vec<_>>(),
                    missing.iter().map(|k| wire::hex(k)).collect::<Vec<_>>()
                ),
            );
            return;
        }
        for (rb, (r, h)) in &exp {
            if got[rb] != *h {
                self.finding(
                    "C11",
                    format!("mpk-flavour:{what}"),
                    format!("right {r:?}: public key hybridized={} expected {h}", got[rb]),
                );
                return;
            }
        }
        let tracers: Option<Vec<Vec<u8>>> = self.msk_wire().map(|m| m.tracers.iter().map(|t| t.1.clone()).collect());
        if tracers.map_or(false, |t| t != w.tpk) {
            self.finding("C17", "mpk-tracing-points".into(), format!("{} tracing points, not the master key's public tracers", w.tpk.len()));
            return;
        }
        self.stats.bump("mpk_wire_checks");
    }

    /// Structural check of a user key against the model and the master key.
    fn check_usk(&mut self, idx: usize, what: &str) {
        let b = match ser(&self.usks[idx].usk) {
            Out::Ok(b) => b,
            o => {
                self.finding("C13", "usk-serialize-failed".into(), o.describe());
                return;
            }
        };
        let w = match WUsk::parse(&b) {
            Ok(w) => w,
            Err(e) => {
                self.finding("C13", "wire-reader-rejects-usk".into(), e);
                return;
            }
        };
        let Some(mw) = self.msk_wire() else { return };
        let prop = self.p.prop;
        let cause = self.cause();
        // model-free flavour invariant of the user key (C11): a secret filed under a right is
        // hybridized iff an attribute of that right is (hints read from the structure in the MSK)
        {
            let mut hint_of: BTreeMap<u64, u64> = BTreeMap::new();
            for d in &mw.structure.dims {
                for a in &d.attrs {
                    hint_of.insert(a.id, a.hint);
                }
            }
            for (r, chain) in &w.chains {
                let mut c = wire::Cur::new(r);
                let mut ids = vec![];
                while c.remaining() > 0 {
                    match c.leb("id") {
                        Ok(id) => ids.push(id),
                        Err(_) => break,
                    }
                }
                if ids.iter().any(|i| !hint_of.contains_key(i)) {
                    continue;
                }
                let expected = ids.iter().any(|i| hint_of[i] == 1);
                if chain.iter().any(|sk| sk.hybrid != expected) {
                    self.finding(
                        "C11",
                        format!("usk-flavour-invariant:{what}"),
                        format!("user key after {what}: right {ids:?} holds a secret with hybridized={} although its attributes' hints give {expected}", !expected),
                    );
                    if self.stopped {
                        return;
                    }
                    break;
                }
            }
        }
        let m = self.usks[idx].m.clone();
        let mut exp: BTreeMap<Vec<u8>, (RightT, Vec<(u64, bool)>)> = BTreeMap::new();
        for (r, chain) in &m.chains {
            if let Some(b) = self.right_bytes(r) {
                exp.insert(b, (r.clone(), chain.clone()));
            }
        }
        let got: BTreeMap<Vec<u8>, &Vec<WSk>> = w.chains.iter().map(|(r, c)| (r.clone(), c)).collect();
        if got.len() != w.chains.len() {
            self.finding(prop, format!("usk-duplicate-right:{what}"), "a right appears twice in the user key".into());
            return;
        }
        let extra: Vec<String> = got.keys().filter(|k| !exp.contains_key(*k)).map(|k| wire::hex(k)).collect();
        let missing: Vec<String> = exp.keys().filter(|k| !got.contains_key(*k)).map(|k| wire::hex(k)).collect();
        if !extra.is_empty() {
            // holding a right it must not hold: over-broad expansion (C02) or unrevoked right
            let p = if prop == "C01" { "C02" } else { prop };
            self.finding(
                p,
                format!("usk-extra-rights:{what}:{cause}"),
                format!("user key holds rights {extra:?} that its policy / the master key do not give it (expected {} rights, got {})", exp.len(), got.len()),
            );
            return;
        }
        if !missing.is_empty() {
            let p = if prop == "C02" { "C01" } else { prop };
            self.finding(
                p,
                format!("usk-missing-rights:{what}:{cause}"),
                format!("user key lacks rights {missing:?} (expected {} rights, got {})", exp.len(), got.len()),
            );
            return;
        }
        for (rb, (r, mchain)) in &exp {
            let wchain = got[rb];
            // every mandatory version must be present ...
            for (v, mandatory) in mchain {
                if *mandatory {
                    if let Some(s) = self.ver_sk.get(v) {
                        if !wchain.iter().any(|x| x.sk == s.sk) {
                            let p = if prop == "C05" { "C05" } else if prop == "C01" || prop == "C02" { "C01" } else { prop };
                            self.finding(
                                p,
                                format!("usk-lacks-mandatory-secret:{what}"),
                                format!("right {r:?}: version {v} must be held after {what} but is not"),
                            );
                            return;
                        }
                    }
                }
            }
            // ... every held secret must be allowed (mandatory or optional) ...
            let allowed: Vec<&WSk> = mchain.iter().filter_map(|(v, _)| self.ver_sk.get(v)).collect();
            for s in wchain.iter() {
                if !allowed.iter().any(|a| a.sk == s.sk) {
                    let p = if prop == "C04" || prop == "C05" {
                        prop
                    } else if (prop == "C01" || prop == "C02") && what == "keygen" {
                        // a fresh key was given something else than the current secret
                        "C01"
                    } else {
                        "C05"
                    };
                    self.finding(
                        p,
                        format!("usk-holds-removed-or-foreign-secret:{what}"),
                        format!("right {r:?}: the key holds a secret that is neither newly granted nor still in the master key ({} held, {} allowed)", wchain.len(), allowed.len()),
                    );
                    return;
                }
            }
            // ... and the chain is a sub-sequence of the master chain, newest first (right after
            // the master key handed it out; a stale key legitimately is not)
            let fresh_from_master = what == "keygen" || what.starts_with("refresh");
            if let (true, Some(mc)) = (fresh_from_master, mw.chain(rb)) {
                let mut it = mc.iter();
                for s in wchain.iter() {
                    if !it.any(|(_, ms)| ms.sk == s.sk && ms.hybrid == s.hybrid && ms.dk == s.dk) {
                        let p = if prop == "C04" { "C04" } else { "C05" };
                        self.finding(
                            p,
                            format!("usk-chain-not-subsequence-of-master:{what}"),
                            format!("right {r:?}: user chain ({} secrets) is not a sub-sequence of the master chain ({} secrets)", wchain.len(), mc.len()),
                        );
                        return;
                    }
                }
            }
            // flavour
            for s in wchain.iter() {
                if let Some(k) = allowed.iter().find(|a| a.sk == s.sk) {
                    if k.hybrid != s.hybrid {
                        self.finding(
                            "C11",
                            format!("usk-flavour:{what}"),
                            format!("right {r:?}: user secret hybridized={} but the master secret is {}", s.hybrid, k.hybrid),
                        );
                        return;
                    }
                }
            }
        }
        // tracing points and id
        if w.ps.len() != mw.tracers.len()
            || w.ps.iter().zip(mw.tracers.iter()).any(|(p, (_, tp))| p != tp)
        {
            self.finding("C17", format!("usk-tracing-points:{what}"), "user key tracing points differ from the master tracers".into());
            return;
        }
        if !mw.users.iter().any(|u| *u == w.id) {
            self.finding("C17", format!("usk-id-not-registered:{what}"), "user key id is not in the master key's user set".into());
            return;
        }
        if w.sig.is_none() {
            self.finding("C08", format!("usk-unsigned:{what}"), "issued user key carries no signature".into());
            return;
        }
        self.stats.bump("usk_wire_checks");
    }

    // -------------------------------------------------------------------------------------
    // the decapsulation matrix
    // -------------------------------------------------------------------------------------

    fn judge_decaps(
        &mut self,
        usk: &UserSecretKey,
        um: &UskM,
        upol: &Pol,
        e_idx: usize,
        who: &str,
    ) -> bool {
        let exp = um.expect(&self.encs[e_idx].m);
        if self.p.name == "static-cover" && who == "key" {
            self.static_pair(upol, e_idx, exp);
        }
        let out = call(|| self.cc.decaps(usk, &self.encs[e_idx].enc));
        let prop = self.p.prop;
        let cause = self.cause();
        self.stats.bump("decaps_evaluated");
        let enc_text = format!("{:?}", self.encs[e_idx].pol);
        match (exp, out) {
            (Expect::MustOpen, Out::Ok(Some(s))) => {
                if real::secret_bytes(&s) == self.encs[e_idx].secret {
                    self.stats.bump("must_open_ok");
                    true
                } else {
                    let p = if prop == "C02" { "C01" } else { prop };
                    self.finding(p, format!("decaps-wrong-secret:{who}"), format!("{who} {upol:?} on encapsulation {enc_text}: a different secret came out"));
                    false
                }
            }
            (Expect::MustOpen, o) => {
                let p = if prop == "C02" { "C01" } else { prop };
                let refreshed = who != "key";
                self.finding(
                    p,
                    format!("authorized-key-refused:{who}:{cause}"),
                    format!(
                        "{who} with policy {upol:?} (rights {}) must open encapsulation for {enc_text} (targets {:?}) but got {}; refreshed={refreshed}",
                        um.n_rights(),
                        self.encs[e_idx].m.targets,
                        match &o { Out::Ok(None) => "None".to_string(), x => x.describe() }
                    ),
                );
                false
            }
            (Expect::MustNotOpen, Out::Ok(None)) => {
                self.stats.bump("must_not_open_ok");
                true
            }
            (Expect::MustNotOpen, o) => {
                let p = if prop == "C01" { "C02" } else { prop };
                let what = match &o {
                    Out::Ok(Some(s)) => {
                        if real::secret_bytes(s) == self.encs[e_idx].secret {
                            "the encapsulated secret".to_string()
                        } else {
                            "some other secret".to_string()
                        }
                    }
                    x => x.describe(),
                };
                let kind = if o.is_ok() { "unauthorized-key-opens" } else { "unauthorized-key-error" };
                self.finding(
                    p,
                    format!("{kind}:{who}:{cause}"),
                    format!(
                        "{who} with policy {upol:?} must NOT open encapsulation for {enc_text} (targets {:?}; key versions do not intersect) but decaps returned {what}",
                        self.encs[e_idx].m.targets
                    ),
                );
                false
            }
            (Expect::DontCare, Out::Ok(Some(s))) => {
                self.stats.bump("dont_care");
                if real::secret_bytes(&s) != self.encs[e_idx].secret {
                    self.finding(prop, format!("decaps-wrong-secret:{who}"), format!("{who} {upol:?}: a different secret came out"));
                    return false;
                }
                true
            }
            (Expect::DontCare, Out::Ok(None)) => {
                self.stats.bump("dont_care");
                true
            }
            (Expect::DontCare, o) => {
                self.finding("C09", format!("decaps-fails:{who}"), o.describe());
                false
            }
        }
    }

    /// Static workloads (C01/C02): cross-check the version-level expectation against the name-level
    /// cover relation of the property statement, and record why the pair is (not) covered.
    fn static_pair(&mut self, upol: &Pol, e_idx: usize, exp: Expect) {
        let st = &self.mskm.st;
        let epol = self.encs[e_idx].pol.clone();
        let e_dnf = epol.dnf();
        let semantic = e_dnf.iter().any(|e| st.covers(upol, e));
        if semantic != (exp == Expect::MustOpen) {
            self.stats.inconclusive.push(format!(
                "model self-test failed: name-level cover={semantic} but rights-level expectation={exp:?} for user {upol:?} enc {epol:?}"
            ));
            return;
        }
        self.stats.bump("model_selftest_cover_agree");
        let mut reasons: BTreeSet<&'static str> = BTreeSet::new();
        for k in upol.dnf() {
            for e in &e_dnf {
                let mut covered = true;
                let mut local: BTreeSet<&'static str> = BTreeSet::new();
                if k.is_empty() {
                    local.insert("star");
                }
                for (ed, ea) in e {
                    match k.iter().find(|(kd, _)| kd == ed) {
                        None => {
                            local.insert("unmentioned-dim");
                        }
                        Some((_, ka)) => {
                            let d = &st.dims[ed];
                            let pe = d.attrs.iter().position(|a| &a.name == ea);
                            let pk = d.attrs.iter().position(|a| &a.name == ka);
                            if let (Some(pe), Some(pk)) = (pe, pk) {
                                if d.ordered {
                                    if pe < pk {
                                        local.insert("lower-in-hierarchy");
                                    } else if pe > pk {
                                        covered = false;
                                        local.insert("refused:higher-in-hierarchy");
                                    }
                                } else if pe != pk {
                                    covered = false;
                                    local.insert("refused:sibling");
                                }
                            }
                        }
                    }
                }
                if covered == semantic {
                    for r in local {
                        if r.starts_with("refused") != covered {
                            reasons.insert(r);
                        }
                    }
                }
            }
        }
        let interesting = if semantic {
            reasons.iter().any(|r| !r.starts_with("refused"))
        } else {
            reasons.iter().any(|r| r.starts_with("refused"))
        };
        if interesting && ((self.p.prop == "C01") == semantic) {
            let h = fnv(format!("{}|{}|{}|{:?}", self.struct_shape, upol.shape(), epol.shape(), reasons).as_bytes());
            self.stats.shapes.insert(h);
            for r in reasons {
                self.stats.bump(&format!("pairs_{r}"));
            }
        }
    }

    pub fn matrix(&mut self) {
        let n_e = self.encs.len();
        let e_from = n_e.saturating_sub(self.p.max_encs);
        for i in 0..self.usks.len() {
            // chains of unequal length inside one key: the case the rotation property is about
            if self.usks[i].m.chain_lengths().len() > 1 {
                self.flags.unequal_chains_at_decaps = true;
            }
            let usk = self.usks[i].usk.clone();
            let um = self.usks[i].m.clone();
            let upol = self.usks[i].pol.clone();
            for j in e_from..n_e {
                if !self.judge_decaps(&usk, &um, &upol, j, "key") {
                    return;
                }
                if self.encs[j].edit_epoch > self.usks[i].born_edit_epoch
                    && (self.flags.add_after_delete || self.flags.add_after_rename)
                {
                    self.flags.enc_on_new_attr_old_key = true;
                }
            }
            if self.p.shadow_refresh {
                for keep in [true, false] {
                    // refresh a byte-level copy of the key; the original stays as it is
                    let bytes = match ser(&usk) {
                        Out::Ok(b) => b,
                        _ => continue,
                    };
                    let Out::Ok(mut copy) = de::<UserSecretKey>(&bytes) else {
                        self.finding("C13", "usk-roundtrip-fails".into(), "cannot deserialize an issued key".into());
                        return;
                    };
                    let out = call(|| self.cc.refresh_usk(&mut self.msk, &mut copy, keep));
                    self.stats.bump("shadow_refresh");
                    if !out.is_ok() {
                        self.finding(
                            "C09",
                            format!("refresh-of-issued-key-fails:keep={keep}"),
                            format!("refresh(keep={keep}) of an issued key {upol:?} returned {}", out.describe()),
                        );
                        return;
                    }
                    let rm = self.mskm.refresh(&um, keep);
                    if um.chains.iter().any(|(r, c)| {
                        self.mskm.secrets.get(r).map_or(false, |mc| !c.iter().any(|(v, _)| mc.iter().any(|s| s.ver == *v)))
                    }) {
                        self.flags.anchor_pruned_refresh = true;
                    }
                    let who = if keep { "refreshed(keep)-copy" } else { "refreshed(nokeep)-copy" };
                    for j in e_from..n_e {
                        if !self.judge_decaps(&copy, &rm, &upol, j, who) {
                            return;
                        }
                    }
                }
            }
        }
        self.stats.bump("matrices");
    }

    // -------------------------------------------------------------------------------------
    // one step
    // -------------------------------------------------------------------------------------

    /// Ok/Err agreement (C09). Returns Some(true) both ok, Some(false) both err, None diverged.
    fn agree<T>(&mut self, op: &Op, expect_ok: bool, why: &str, out: &Out<T>) -> Option<bool> {
        let class = format!("{}:{}", op.kind(), if expect_ok { "ok" } else { why });
        self.flags.err_classes.insert(class);
        match (expect_ok, out) {
            (true, Out::Ok(_)) => {
                self.stats.bump("calls_ok");
                Some(true)
            }
            (false, Out::Err(_)) => {
                self.stats.bump("calls_err_as_documented");
                Some(false)
            }
            (_, Out::Panic(m)) => {
                self.finding("C09", format!("panic:{}", op.kind()), format!("{} panicked: {m}", op.describe()));
                None
            }
            (true, Out::Err(e)) => {
                self.finding(
                    "C09",
                    format!("unexpected-error:{}", op.kind()),
                    format!("{} must succeed but returned Err({})", op.describe(), real::trunc(e, 200)),
                );
                None
            }
            (false, Out::Ok(_)) => {
                self.finding(
                    "C09",
                    format!("unexpected-success:{}:{why}", op.kind()),
                    format!("{} must fail ({why}) but succeeded", op.describe()),
                );
                None
            }
        }
    }

    fn msk_snapshot(&mut self) -> Option<WMsk> {
        self.msk_wire().map(|w| w.canonical())
    }

    fn unchanged_msk(&mut self, before: &Option<WMsk>, op: &Op) -> bool {
        let after = self.msk_snapshot();
        if let (Some(b), Some(a)) = (before, &after) {
            if a != b {
                let what = if a.chains.len() != b.chains.len() {
                    "rights-lost-or-added"
                } else if a.chains != b.chains {
                    "chains-changed"
                } else if a.users != b.users {
                    "users-changed"
                } else if a.structure != b.structure {
                    "structure-changed"
                } else {
                    "other"
                };
                self.finding(
                    "C10",
                    format!("msk-changed-by-failed-call:{}:{what}", op.kind()),
                    format!(
                        "{} returned an error but the master key changed ({} → {} rights, {} → {} secrets, {} → {} users)",
                        op.describe(),
                        b.chains.len(),
                        a.chains.len(),
                        b.chains.iter().map(|c| c.1.len()).sum::<usize>(),
                        a.chains.iter().map(|c| c.1.len()).sum::<usize>(),
                        b.users.len(),
                        a.users.len()
                    ),
                );
                return false;
            }
            self.stats.bump("failed_call_state_unchanged");
        }
        true
    }

    /// A policy *object* that no string yields: `<invalid> OR broadcast` (the parser and `|` fold
    /// it into broadcast at once). Its DNF has the empty clause next to a clause naming an unknown
    /// attribute: as for any policy with an unknown name, the user-side calls must refuse it and
    /// leave the master key alone.
    fn raw_tautology_probe(&mut self, op: &Op, invalid_text: &str) {
        let Some(bad) = self.to_real_policy(invalid_text) else { return };
        let flip = self.log.len() % 2 == 0;
        let ap = if flip {
            AccessPolicy::Disjunction(Box::new(AccessPolicy::Broadcast), Box::new(bad))
        } else {
            AccessPolicy::Disjunction(Box::new(bad), Box::new(AccessPolicy::Broadcast))
        };
        let before = self.msk_snapshot();
        let agreed = match op {
            Op::Keygen { .. } => {
                let out = call(|| self.cc.generate_user_secret_key(&mut self.msk, &ap));
                self.agree(op, false, "unknown-name-next-to-broadcast", &out)
            }
            Op::Rekey { .. } => {
                let out = call(|| self.cc.rekey(&mut self.msk, &ap));
                self.agree(op, false, "unknown-name-next-to-broadcast", &out)
            }
            _ => {
                let out = call(|| self.cc.prune_master_secret_key(&mut self.msk, &ap));
                self.agree(op, false, "unknown-name-next-to-broadcast", &out)
            }
        };
        self.stats.bump("raw_tautology_probes");
        if agreed == Some(false) {
            self.unchanged_msk(&before, op);
        }
    }

    fn to_real_policy(&mut self, text: &str) -> Option<AccessPolicy> {
        match real::parse(text) {
            Out::Ok(p) => Some(p),
            o => {
                self.finding(
                    "C15",
                    format!("grammar-string-rejected:{}", if o.is_panic() { "panic" } else { "error" }),
                    format!("parse({text:?}) → {}", o.describe()),
                );
                None
            }
        }
    }

    fn push_mpk(&mut self, mpk: MasterPublicKey, what: &str) {
        let m = self.mskm.mpk();
        if self.flags.disabled_effective {
            self.flags.mpk_ops_after_disable += 1;
        }
        self.mpks.push(MpkSlot { mpk, m });
        let idx = self.mpks.len() - 1;
        self.check_mpk(idx, what);
        if self.mpks.len() > 6 {
            self.mpks.remove(1);
        }
    }

    pub fn step(&mut self, op: &Op) {
        if self.stopped {
            return;
        }
        self.log.push(op.describe());
        self.stats.bump(&format!("op_{}", op.kind()));
        if let Op::Keygen { text, .. } | Op::Rekey { text, .. } | Op::Prune { text, .. } = op {
            if let Some(rest) = text.strip_prefix(RAW_TAUTOLOGY) {
                self.raw_tautology_probe(op, rest);
                return;
            }
        }
        match op {
            Op::AddDim { name, ordered } => {
                let before = self.msk_snapshot();
                let mut m = self.mskm.st.clone();
                let exp = m.add_dim(name, *ordered);
                let out = call(|| {
                    if *ordered {
                        self.msk.access_structure.add_hierarchy(name.clone())
                    } else {
                        self.msk.access_structure.add_anarchy(name.clone())
                    }
                });
                match self.agree(op, exp.is_ok(), "duplicate-dimension", &out) {
                    Some(true) => {
                        self.mskm.st = m;
                        self.flags.edit_epoch += 1;
                    }
                    Some(false) => {
                        self.unchanged_msk(&before, op);
                    }
                    None => {
                        // an error nobody expected is still an error: the key must be untouched
                        if matches!(out, Out::Err(_)) {
                            self.unchanged_msk(&before, op);
                        }
                    }
                }
            }
            Op::DelDim { name } => {
                let before = self.msk_snapshot();
                let mut m = self.mskm.st.clone();
                let exp = m.del_dim(name);
                let out = call(|| self.msk.access_structure.del_dimension(name));
                match self.agree(op, exp.is_ok(), "unknown-dimension", &out) {
                    Some(true) => {
                        for t in exp.unwrap() {
                            if let Some(id) = self.tok_id.remove(&t) {
                                self.retired.insert(t, id);
                            }
                        }
                        self.mskm.st = m;
                        self.flags.deleted_something = true;
                        self.flags.edit_epoch += 1;
                    }
                    Some(false) => {
                        self.unchanged_msk(&before, op);
                    }
                    None => {
                        // an error nobody expected is still an error: the key must be untouched
                        if matches!(out, Out::Err(_)) {
                            self.unchanged_msk(&before, op);
                        }
                    }
                }
            }
            Op::AddAttr { dim, name, hybrid, after } => {
                let before = self.msk_snapshot();
                let mut m = self.mskm.st.clone();
                let tok = self.mskm.next_tok + 1;
                let exp = m.add_attr(dim, name, *hybrid, after.as_deref(), tok);
                let out = call(|| {
                    self.msk.access_structure.add_attribute(
                        QualifiedAttribute::new(dim, name),
                        real::hint(*hybrid),
                        after.as_deref(),
                    )
                });
                let why = match &exp {
                    Err(MErr::DimensionNotFound) => "unknown-dimension",
                    Err(MErr::Duplicate) => "duplicate-attribute",
                    Err(MErr::AfterNotFound) => "unknown-after",
                    _ => "?",
                };
                match self.agree(op, exp.is_ok(), why, &out) {
                    Some(true) => {
                        self.mskm.fresh_tok();
                        self.mskm.st = m;
                        if self.flags.deleted_something {
                            self.flags.add_after_delete = true;
                        }
                        if self.flags.renamed_something {
                            self.flags.add_after_rename = true;
                        }
                        self.flags.edit_epoch += 1;
                        // learn the id right away (the structure is inside the master key)
                        if let Some(w) = self.msk_wire() {
                            self.observe_ids(&w.structure);
                        }
                    }
                    Some(false) => {
                        self.unchanged_msk(&before, op);
                    }
                    None => {
                        // an error nobody expected is still an error: the key must be untouched
                        if matches!(out, Out::Err(_)) {
                            self.unchanged_msk(&before, op);
                        }
                    }
                }
            }
            Op::DelAttr { dim, name } => {
                let before = self.msk_snapshot();
                let mut m = self.mskm.st.clone();
                let exp = m.del_attr(dim, name);
                let out = call(|| self.msk.access_structure.del_attribute(&QualifiedAttribute::new(dim, name)));
                match self.agree(op, exp.is_ok(), "unknown-attribute", &out) {
                    Some(true) => {
                        let t = exp.unwrap();
                        if let Some(id) = self.tok_id.remove(&t) {
                            self.retired.insert(t, id);
                        }
                        self.mskm.st = m;
                        self.flags.deleted_something = true;
                        self.flags.edit_epoch += 1;
                    }
                    Some(false) => {
                        self.unchanged_msk(&before, op);
                    }
                    None => {
                        // an error nobody expected is still an error: the key must be untouched
                        if matches!(out, Out::Err(_)) {
                            self.unchanged_msk(&before, op);
                        }
                    }
                }
            }
            Op::Rename { dim, old, new } => {
                let before = self.msk_snapshot();
                let mut m = self.mskm.st.clone();
                let exp = m.rename(dim, old, new);
                let out = call(|| {
                    self.msk
                        .access_structure
                        .rename_attribute(&QualifiedAttribute::new(dim, old), new.clone())
                });
                match self.agree(op, exp.is_ok(), "rename-invalid", &out) {
                    Some(true) => {
                        self.mskm.st = m;
                        self.flags.renamed_something = true;
                        self.flags.edit_epoch += 1;
                    }
                    Some(false) => {
                        self.unchanged_msk(&before, op);
                    }
                    None => {
                        // an error nobody expected is still an error: the key must be untouched
                        if matches!(out, Out::Err(_)) {
                            self.unchanged_msk(&before, op);
                        }
                    }
                }
            }
            Op::Disable { dim, name } => {
                let before = self.msk_snapshot();
                let mut m = self.mskm.st.clone();
                let exp = m.disable(dim, name);
                let out = call(|| self.msk.access_structure.disable_attribute(&QualifiedAttribute::new(dim, name)));
                match self.agree(op, exp.is_ok(), "unknown-attribute", &out) {
                    Some(true) => {
                        self.mskm.st = m;
                    }
                    Some(false) => {
                        self.unchanged_msk(&before, op);
                    }
                    None => {
                        // an error nobody expected is still an error: the key must be untouched
                        if matches!(out, Out::Err(_)) {
                            self.unchanged_msk(&before, op);
                        }
                    }
                }
            }
            Op::Update => {
                let before = self.msk_snapshot();
                let mut m = self.mskm.clone();
                let exp = m.update();
                let out = call(|| self.cc.update_msk(&mut self.msk));
                self.last_update_failed_born_disabled = exp.is_err();
                match self.agree(op, exp.is_ok(), "born-disabled-right", &out) {
                    Some(true) => {
                        self.mskm = m;
                        if self.mskm.st.all_attrs().iter().any(|(_, a)| a.disabled) {
                            self.flags.disabled_effective = true;
                        }
                        self.after_msk_change("update");
                        if !self.stopped {
                            self.flavour_invariant("update");
                        }
                        if !self.stopped {
                            self.push_mpk(out.ok().unwrap(), "update");
                        }
                    }
                    Some(false) => {
                        self.unchanged_msk(&before, op);
                    }
                    None => {
                        if matches!(out, Out::Err(_)) {
                            self.unchanged_msk(&before, op);
                        }
                        // an update that should have been refused (a new right involving a disabled
                        // attribute): does the public key it returned publish such a right? (C06)
                        if let (Err(MErr::BornDisabled), Out::Ok(mpk)) = (&exp, &out) {
                            let disabled_ids: Vec<u64> = self
                                .mskm
                                .st
                                .all_attrs()
                                .iter()
                                .filter(|(_, a)| a.disabled)
                                .filter_map(|(_, a)| self.tok_id.get(&a.tok).copied())
                                .collect();
                            if let Some(Ok(w)) = ser(mpk).ok().map(|b| WMpk::parse(&b)) {
                                let published_disabled = w.keys.iter().any(|(r, _)| {
                                    let mut c = wire::Cur::new(r);
                                    let mut hit = false;
                                    while c.remaining() > 0 {
                                        match c.leb("id") {
                                            Ok(id) => hit |= disabled_ids.contains(&id),
                                            Err(_) => break,
                                        }
                                    }
                                    hit
                                });
                                if published_disabled {
                                    self.stats.findings.push(Finding {
                                        prop: "C06".into(),
                                        signature: "C06:update-publishes-a-new-right-of-a-disabled-attribute".into(),
                                        detail: "update_msk accepted a structure in which a new right involves a disabled attribute and the public key it returned publishes such a right".into(),
                                        replay: self.replay.clone(),
                                    });
                                }
                            }
                        }
                    }
                }
            }
            Op::Rekey { pol, text } | Op::Prune { pol, text } => {
                let is_rekey = matches!(op, Op::Rekey { .. });
                let Some(ap) = self.to_real_policy(text) else { return };
                let before = self.msk_snapshot();
                let mut m = self.mskm.clone();
                let exp = if is_rekey { m.rekey(pol) } else { m.prune(pol) };
                let out = call(|| {
                    if is_rekey {
                        self.cc.rekey(&mut self.msk, &ap)
                    } else {
                        self.cc.prune_master_secret_key(&mut self.msk, &ap)
                    }
                });
                let why = match &exp {
                    Err(MErr::RightNotInMsk) => "right-not-in-msk",
                    Err(_) => "unknown-name",
                    _ => "?",
                };
                match self.agree(op, exp.is_ok(), why, &out) {
                    Some(true) => {
                        self.mskm = m;
                        let what = if is_rekey { "rekey" } else { "prune" };
                        self.after_msk_change(what);
                        if !self.stopped {
                            self.flavour_invariant(what);
                        }
                        if !self.stopped {
                            self.push_mpk(out.ok().unwrap(), what);
                        }
                    }
                    Some(false) => {
                        self.unchanged_msk(&before, op);
                    }
                    None => {
                        if matches!(out, Out::Err(_)) {
                            self.unchanged_msk(&before, op);
                        }
                        // the call succeeded although it had to fail: the model cannot follow, but
                        // the model-free invariants still can (and an update makes the state settle)
                        if out.is_ok() {
                            self.flavour_invariant("unexpected-rekey");
                            if call(|| self.cc.update_msk(&mut self.msk)).is_ok() {
                                self.flavour_invariant("update-after-unexpected-rekey");
                            }
                        }
                    }
                }
            }
            Op::Keygen { pol, text } => {
                let Some(ap) = self.to_real_policy(text) else { return };
                let before = self.msk_snapshot();
                let exp = self.mskm.keygen(pol);
                let out = call(|| self.cc.generate_user_secret_key(&mut self.msk, &ap));
                let why = match &exp {
                    Err(MErr::RightNotInMsk) => "right-not-in-msk",
                    Err(_) => "unknown-name",
                    _ => "?",
                };
                match self.agree(op, exp.is_ok(), why, &out) {
                    Some(true) => {
                        self.usks.push(UskSlot {
                            usk: out.ok().unwrap(),
                            m: exp.unwrap(),
                            pol: pol.clone(),
                            refreshed: 0,
                            born_edit_epoch: self.flags.edit_epoch,
                        });
                        let idx = self.usks.len() - 1;
                        self.check_usk(idx, "keygen");
                        if self.usks.len() > self.p.max_usks {
                            self.usks.remove(0);
                        }
                    }
                    Some(false) => {
                        self.unchanged_msk(&before, op);
                    }
                    None => {
                        // an error nobody expected is still an error: the key must be untouched
                        if matches!(out, Out::Err(_)) {
                            self.unchanged_msk(&before, op);
                        }
                    }
                }
            }
            Op::Refresh { usk, keep } => {
                let i = *usk;
                if i >= self.usks.len() {
                    return;
                }
                let before_usk = ser(&self.usks[i].usk).ok();
                let newm = self.mskm.refresh(&self.usks[i].m, *keep);
                let anchor_lost = self.usks[i].m.chains.iter().any(|(r, c)| {
                    self.mskm.secrets.get(r).map_or(false, |mc| !c.iter().any(|(v, _)| mc.iter().any(|s| s.ver == *v)))
                });
                let mut u = self.usks[i].usk.clone();
                let out = call(|| self.cc.refresh_usk(&mut self.msk, &mut u, *keep));
                match self.agree(op, true, "", &out) {
                    Some(true) => {
                        if anchor_lost {
                            self.flags.anchor_pruned_refresh = true;
                        }
                        self.usks[i].usk = u;
                        self.usks[i].m = newm;
                        self.usks[i].refreshed += 1;
                        self.check_usk(i, if *keep { "refresh(keep)" } else { "refresh(nokeep)" });
                    }
                    _ => {
                        // an issued key that its own master key refuses to refresh cannot follow the
                        // rotation: for the rotation / revocation / disable workloads that is their
                        // property's event, not only a contract violation
                        if matches!(out, Out::Err(_)) && ["C04", "C05", "C06"].contains(&self.p.prop) {
                            let prop = self.p.prop;
                            if let Some(f) = self.stats.findings.last_mut() {
                                if f.signature == "C09:unexpected-error:refresh" {
                                    f.prop = prop.into();
                                    f.signature = format!("{prop}:issued-key-cannot-be-refreshed:keep={keep}");
                                }
                            }
                        }
                        // the call failed although it must not: was the key at least left alone?
                        let after = ser(&u).ok();
                        if before_usk != after {
                            let n0 = before_usk.as_ref().map_or(0, |b| b.len());
                            let n1 = after.as_ref().map_or(0, |b| b.len());
                            self.stats.findings.push(Finding {
                                prop: "C10".into(),
                                signature: format!("C10:usk-changed-by-failed-call:refresh:keep={keep}"),
                                detail: format!("refresh(keep={keep}) returned an error and the user key changed ({n0} → {n1} bytes)"),
                                replay: self.replay.clone(),
                            });
                        }
                    }
                }
            }
            Op::Encaps { mpk, pol, text } => {
                let k = (*mpk).min(self.mpks.len() - 1);
                let Some(ap) = self.to_real_policy(text) else { return };
                let exp = self.mpks[k].m.encaps(pol);
                if self.p.name == "static-cover" && matches!(exp, Err(MErr::NoPublicKey)) && has_dup_clause(pol) {
                    self.dup_clause_probe(k, pol, &ap, op);
                    return;
                }
                let out = call(|| self.cc.encaps(&self.mpks[k].mpk, &ap));
                let why = match &exp {
                    Err(MErr::NoPublicKey) => "no-public-key",
                    Err(_) => "unknown-name",
                    _ => "?",
                };
                match self.agree(op, exp.is_ok(), why, &out) {
                    Some(true) => {
                        let (s, enc) = out.ok().unwrap();
                        let m = exp.unwrap();
                        self.after_encaps(enc, real::secret_bytes(&s), m, pol.clone(), false);
                    }
                    Some(false) => {
                        // C06: which error class was it?
                        if matches!(exp, Err(MErr::NoPublicKey)) {
                            self.stats.bump("encaps_refused_no_public_key");
                        }
                    }
                    None => {
                        // an encapsulation for a deactivated right is the C06 event
                        if let (Err(MErr::NoPublicKey), true) = (&exp, out.is_ok()) {
                            let disabled = self.mpks[k].m.st.enc_rights(pol).ok().map_or(false, |rs| {
                                rs.iter().flatten().any(|r| {
                                    r.iter().any(|t| self.mskm.st.attr_by_tok(*t).map_or(false, |(_, a)| a.disabled))
                                })
                            });
                            if disabled && self.p.prop == "C06" {
                                if let Some(f) = self.stats.findings.last_mut() {
                                    f.prop = "C06".into();
                                    f.signature = "C06:encaps-for-disabled-attribute-succeeds".into();
                                }
                            }
                        }
                    }
                }
            }
            Op::Recaps { enc } => {
                let j = *enc;
                if j >= self.encs.len() {
                    return;
                }
                let mpk = match call(|| self.msk.mpk()) {
                    Out::Ok(m) => m,
                    o => {
                        self.finding("C09", "mpk-derivation-fails".into(), o.describe());
                        return;
                    }
                };
                let mpkm = self.mskm.mpk();
                let exp = self.mskm.recaps(&self.encs[j].m, &mpkm);
                let out = call(|| self.cc.recaps(&self.msk, &mpk, &self.encs[j].enc));
                let n_orig = self.encs[j].m.targets.len();
                match (&exp, &out) {
                    (Ok(m), Out::Ok((s, _))) => {
                        self.flags.recaps_ok += 1;
                        if m.targets.len() < n_orig {
                            self.flags.recaps_partial = true;
                        }
                        self.stats.bump("recaps_ok");
                        if real::secret_bytes(s) == self.encs[j].secret {
                            self.finding("C18", "recaps-reuses-secret".into(), "re-encapsulation returned the original secret".into());
                            return;
                        }
                        let pol = self.encs[j].pol.clone();
                        let (s, e) = out.ok().unwrap();
                        self.after_encaps(e, real::secret_bytes(&s), m.clone(), pol, true);
                    }
                    (Err(_), Out::Err(_)) => {
                        self.flags.recaps_err += 1;
                        self.stats.bump("recaps_refused_as_expected");
                    }
                    (Ok(m), o) => {
                        self.finding(
                            "C18",
                            format!("recaps-fails-although-recoverable:{}of{}", m.targets.len().min(2), n_orig.min(3)),
                            format!(
                                "original targets {:?}; {} of them are still held and published, but recaps returned {}",
                                self.encs[j].m.targets,
                                m.targets.len(),
                                o.describe()
                            ),
                        );
                    }
                    (Err(_), o) => {
                        if o.is_panic() {
                            self.finding("C18", "recaps-panics".into(), o.describe());
                        } else {
                            self.finding(
                                "C18",
                                "recaps-succeeds-with-nothing-recoverable".into(),
                                format!("original targets {:?}: none can be recovered and published, yet recaps succeeded", self.encs[j].m.targets),
                            );
                        }
                    }
                }
            }
            Op::RoundTrip { what, idx } => self.roundtrip(what, *idx),
            Op::DeriveMpk => match call(|| self.msk.mpk()) {
                Out::Ok(m) => self.push_mpk(m, "msk.mpk()"),
                o => self.finding("C09", "mpk-derivation-fails".into(), o.describe()),
            },
            Op::Forged { usk, keep, bit, kind } => {
                let i = *usk;
                if i >= self.usks.len() {
                    return;
                }
                let Some(mut b) = ser(&self.usks[i].usk).ok() else { return };
                let n = b.len();
                match kind {
                    0 => {
                        // flip one bit of something the signature covers: the signature itself, a
                        // secret scalar or an id marker (the tracing points `ps` are not part of what
                        // C08/C09 call the key's identifier, rights and secrets, and are not judged)
                        let Ok(mut w) = WUsk::parse(&b) else { return };
                        let _ = n;
                        match bit % 3 {
                            0 => {
                                if let Some(sig) = w.sig.as_mut() {
                                    sig[(bit / 8) % 32] ^= 1 << (bit % 8);
                                }
                            }
                            1 => {
                                let c = (bit / 3) % w.chains.len().max(1);
                                if let Some(ch) = w.chains.get_mut(c) {
                                    let k = (bit / 7) % ch.1.len().max(1);
                                    ch.1[k].sk[(bit / 8) % 31] ^= 1 << (bit % 8);
                                }
                            }
                            _ => {
                                let m = (bit / 5) % w.id.len().max(1);
                                if let Some(mk) = w.id.get_mut(m) {
                                    mk[(bit / 8) % 31] ^= 1 << (bit % 8);
                                }
                            }
                        }
                        b = w.write();
                    }
                    _ => {
                        let Ok(mut w) = WUsk::parse(&b) else { return };
                        match kind {
                            1 => w.sig = None,
                            2 => {
                                w.sig = None;
                                if w.chains.len() > 1 {
                                    w.chains.remove(bit % w.chains.len());
                                }
                            }
                            3 => {
                                let c = w.chains[bit % w.chains.len()].clone();
                                w.chains.push(c);
                            }
                            _ => {
                                w.sig = None;
                                let j = (i + 1) % self.usks.len();
                                if let Some(Ok(o)) = ser(&self.usks[j].usk).ok().map(|b| WUsk::parse(&b)) {
                                    for c in o.chains {
                                        if !w.chains.iter().any(|x| x.0 == c.0) {
                                            w.chains.push(c);
                                        }
                                    }
                                }
                            }
                        }
                        b = w.write();
                    }
                }
                let Out::Ok(mut forged) = de::<UserSecretKey>(&b) else {
                    self.stats.bump("forged_key_unparseable");
                    return;
                };
                if forged == self.usks[i].usk {
                    // the altered bytes decode to the very same key (a field the decoder
                    // normalises): an equivalent encoding, not another key
                    self.stats.bump("forged_key_equivalent_encoding");
                    return;
                }
                let before = self.msk_snapshot();
                let out = call(|| self.cc.refresh_usk(&mut self.msk, &mut forged, *keep));
                match self.agree(op, false, "forged-key", &out) {
                    Some(false) => {
                        self.unchanged_msk(&before, op);
                        if ser(&forged).ok().as_ref() != Some(&b) {
                            self.finding("C10", "usk-changed-by-failed-call:forged-refresh".into(), "rejected key was modified".into());
                        }
                    }
                    _ => {
                        // "a forged user key" is one of the documented error situations (C09)
                        if let Some(f) = self.stats.findings.last_mut() {
                            if f.signature.starts_with("C09:unexpected-success") {
                                f.signature = format!("C09:forged-key-accepted:kind{kind}");
                            }
                        }
                    }
                }
            }
            Op::Matrix => self.matrix(),
        }
        // abstract state
        let st = format!(
            "{}|{:?}|{}|{:?}|{}|{}",
            self.mskm.st.dims.values().map(|d| format!("{}{}", if d.ordered { 'h' } else { 'a' }, d.attrs.len())).collect::<Vec<_>>().join(","),
            self.mskm.secrets.values().map(|c| c.len()).fold(BTreeMap::new(), |mut m: BTreeMap<usize, usize>, l| { *m.entry(l).or_insert(0) += 1; m }),
            self.mskm.secrets.values().filter(|c| !c[0].activated).count(),
            self.usks.iter().map(|u| (u.m.n_rights(), u.m.chain_lengths().len())).collect::<Vec<_>>(),
            self.encs.len().min(3),
            self.mskm.st.omega().len() == self.mskm.secrets.len()
        );
        self.stats.states.insert(fnv(st.as_bytes()));
    }

    /// An encryption policy with a conjunction naming one dimension twice designates no right: the
    /// code refuses it. Should it ever accept one, the statement of C02 still binds: a key that does
    /// not cover *every* attribute of some conjunction must not open the result. (Static workloads
    /// only: every key is current and every name resolves in the one structure.)
    fn dup_clause_probe(&mut self, k: usize, pol: &Pol, ap: &AccessPolicy, op: &Op) {
        let out = call(|| self.cc.encaps(&self.mpks[k].mpk, ap));
        let (_s, enc) = match out {
            Out::Ok(x) => x,
            Out::Err(_) => {
                self.stats.bump("dup_clause_encaps_refused");
                return;
            }
            Out::Panic(m) => {
                self.finding("C09", format!("panic:{}", op.kind()), format!("{} panicked: {m}", op.describe()));
                return;
            }
        };
        self.stats.bump("dup_clause_encaps_accepted");
        let e_dnf = pol.dnf();
        for i in 0..self.usks.len() {
            let upol = self.usks[i].pol.clone();
            if e_dnf.iter().any(|e| self.mskm.st.covers(&upol, e)) {
                self.stats.bump("dup_clause_key_covers_every_attribute");
                continue;
            }
            let out = call(|| self.cc.decaps(&self.usks[i].usk, &enc));
            self.stats.bump("decaps_evaluated");
            self.stats.bump("dup_clause_must_not_open");
            if let Out::Ok(Some(_)) = out {
                let p = if self.p.prop == "C01" { "C02" } else { self.p.prop };
                self.finding(
                    p,
                    "unauthorized-key-opens:conjunction-naming-a-dimension-twice".into(),
                    format!("key {upol:?} covers no conjunction of {pol:?} (a conjunction names one dimension twice and the key does not cover both attributes) but opens the encapsulation"),
                );
                return;
            }
        }
    }

    fn after_encaps(&mut self, enc: XEnc, secret: [u8; 32], m: EncM, pol: Pol, from_recaps: bool) {
        // structural: entries, flavour, traps
        match ser(&enc).ok().map(|b| WXenc::parse(&b)) {
            Some(Ok(w)) => {
                if w.encs.len() != m.targets.len() {
                    let p = if from_recaps { "C18" } else { self.p.prop };
                    self.finding(
                        p,
                        format!("encapsulation-entry-count:{}", if from_recaps { "recaps" } else { "encaps" }),
                        format!("{} entries for {} targeted rights {:?}", w.encs.len(), m.targets.len(), m.targets),
                    );
                    return;
                }
                if w.hybrid != m.hybrid {
                    self.finding(
                        "C11",
                        format!("encapsulation-flavour:{}", if m.hybrid { "expected-hybridized" } else { "expected-classic" }),
                        format!("targets {:?}: hybridized={} expected {}", m.targets, w.hybrid, m.hybrid),
                    );
                    return;
                }
                if Some(w.traps.len()) != self.msk_wire().map(|m| m.tracers.len()) {
                    self.finding("C17", "encapsulation-traps".into(), format!("{} traps", w.traps.len()));
                    return;
                }
                if m.hybrid {
                    self.flags.hybrid_enc = true;
                } else {
                    self.flags.classic_enc = true;
                    let hs: BTreeSet<bool> = m
                        .targets
                        .iter()
                        .filter_map(|(r, _)| self.mskm.secrets.get(r).map(|c| c[0].hybrid))
                        .collect();
                    if hs.len() > 1 {
                        self.flags.mixed_flavour_enc = true;
                    }
                }
            }
            Some(Err(e)) => {
                self.finding("C13", "wire-reader-rejects-xenc".into(), e);
                return;
            }
            None => {
                self.finding("C13", "xenc-serialize-failed".into(), String::new());
                return;
            }
        }
        self.encs.push(EncSlot {
            enc,
            secret,
            m,
            pol,
            from_recaps,
            edit_epoch: self.flags.edit_epoch,
        });
        if self.encs.len() > 3 * self.p.max_encs {
            self.encs.remove(0);
        }
    }

    fn roundtrip(&mut self, what: &RT, idx: usize) {
        self.flags.roundtrips += 1;
        macro_rules! rt {
            ($obj:expr, $ty:ty, $name:expr) => {{
                let len = $obj.length();
                match ser(&$obj) {
                    Out::Ok(b) => {
                        if b.len() != len {
                            self.finding("C13", format!("length-mismatch:{}", $name), format!("length()={len} but {} bytes written", b.len()));
                            None
                        } else {
                            match de::<$ty>(&b) {
                                Out::Ok(x) => {
                                    if x != $obj {
                                        if self.p.prop == "C13" {
                                            self.finding("C13", format!("roundtrip-not-equal:{}", $name), format!("deserialize(serialize(x)) != x ({} bytes)", b.len()));
                                            None
                                        } else {
                                            // recorded for C13, but the history goes on with the copy (as a
                                            // user would): the consequences belong to this profile's property
                                            self.stats.findings.push(Finding {
                                                prop: "C13".into(),
                                                signature: format!("C13:roundtrip-not-equal:{}", $name),
                                                detail: "deserialize(serialize(x)) != x".into(),
                                                replay: self.replay.clone(),
                                            });
                                            Some(x)
                                        }
                                    } else {
                                        // independent of the crate's own `==`: the copy serializes to the
                                        // same content (compared field by field by the wire reader, in an
                                        // order-independent form where hash maps are involved)
                                        let again = ser(&x).ok().and_then(|b2| wire_canon($name, &b2));
                                        if again.is_none() || again != wire_canon($name, &b) {
                                            self.finding(
                                                "C13",
                                                format!("roundtrip-copy-serializes-differently:{}", $name),
                                                format!("x == deserialize(serialize(x)) holds for the crate's PartialEq, but the copy does not serialize to the same content ({} bytes)", b.len()),
                                            );
                                            None
                                        } else {
                                            self.stats.bump("roundtrips_ok");
                                            Some(x)
                                        }
                                    }
                                }
                                o => {
                                    self.finding("C13", format!("roundtrip-rejected:{}", $name), o.describe());
                                    None
                                }
                            }
                        }
                    }
                    o => {
                        self.finding("C13", format!("serialize-failed:{}", $name), o.describe());
                        None
                    }
                }
            }};
        }
        match what {
            RT::Msk => {
                if let Some(x) = rt!(self.msk, MasterSecretKey, "msk") {
                    self.msk = x;
                    self.after_msk_change("roundtrip");
                }
            }
            RT::Mpk => {
                let i = idx.min(self.mpks.len() - 1);
                if let Some(x) = rt!(self.mpks[i].mpk, MasterPublicKey, "mpk") {
                    self.mpks[i].mpk = x;
                    self.check_mpk(i, "roundtrip");
                }
            }
            RT::Usk => {
                if self.usks.is_empty() {
                    return;
                }
                let i = idx % self.usks.len();
                if let Some(x) = rt!(self.usks[i].usk, UserSecretKey, "usk") {
                    self.usks[i].usk = x;
                    self.check_usk(i, "roundtrip");
                }
            }
            RT::Enc => {
                if self.encs.is_empty() {
                    return;
                }
                let i = idx % self.encs.len();
                if let Some(x) = rt!(self.encs[i].enc, XEnc, "xenc") {
                    self.encs[i].enc = x;
                }
            }
            RT::Structure => {
                if let Some(x) = rt!(self.msk.access_structure, AccessStructure, "structure") {
                    self.msk.access_structure = x;
                    self.after_msk_change("roundtrip-structure");
                }
            }
        }
    }
}

// -------------------------------------------------------------------------------------------------
// history generation
// -------------------------------------------------------------------------------------------------

/// Order-independent rendering of a serialized object by the independent wire reader.
fn wire_canon(kind: &str, b: &[u8]) -> Option<String> {
    match kind {
        "msk" => WMsk::parse(b).ok().map(|w| format!("{:?}", w.canonical())),
        "mpk" => WMpk::parse(b).ok().map(|w| format!("{:?}", w.canonical())),
        "structure" => WStruct::parse(b).ok().map(|w| format!("{:?}", w.canonical())),
        _ => Some(wire::hex(b)),
    }
}

fn has_dup_clause(pol: &Pol) -> bool {
    pol.dnf().iter().any(|c| {
        let mut seen = BTreeSet::new();
        c.iter().any(|(d, _)| !seen.insert(d.clone()))
    })
}

/// Marks a policy text that is to be OR-ed with `AccessPolicy::Broadcast` as an object.
pub const RAW_TAUTOLOGY: &str = "\u{1}raw-or-broadcast\u{1}";

pub struct Gen {
    pub rng: Rng,
}

impl Gen {
    fn dim_names(p: &Profile) -> &'static [&'static str] {
        if p.unicode_names {
            DIM_NAMES_UNI
        } else {
            DIM_NAMES
        }
    }
    fn attr_names(p: &Profile) -> &'static [&'static str] {
        if p.unicode_names {
            ATTR_NAMES_UNI
        } else {
            ATTR_NAMES
        }
    }

    /// Random policy over `st` in which AND-operands use disjoint dimensions (so that no
    /// conjunction of the DNF names a dimension twice).
    pub fn policy(&mut self, st: &MStruct, max_leaves: usize) -> Pol {
        let dims: Vec<&String> = st.dims.iter().filter(|(_, d)| !d.attrs.is_empty()).map(|(n, _)| n).collect();
        if dims.is_empty() || self.rng.chance(1, 14) {
            return Pol::All;
        }
        let mut budget = self.rng.range(1, max_leaves.max(1));
        self.pol_rec(st, &dims, &mut budget, 0)
    }

    fn pol_rec(&mut self, st: &MStruct, dims: &[&String], budget: &mut usize, depth: usize) -> Pol {
        let leaf = |g: &mut Self, dims: &[&String]| -> Pol {
            let d = *g.rng.pick(dims);
            let a = g.rng.pick(&st.dims[d].attrs);
            Pol::attr(d, &a.name)
        };
        if *budget <= 1 || depth >= 3 {
            *budget = budget.saturating_sub(1);
            return if depth > 0 && self.rng.chance(1, 10) { Pol::All } else { leaf(self, dims) };
        }
        match self.rng.below(5) {
            0 => {
                *budget -= 1;
                leaf(self, dims)
            }
            1 | 2 if dims.len() >= 2 => {
                // AND over a partition of (some of) the dimensions
                let mut ds: Vec<&String> = dims.to_vec();
                self.rng.shuffle(&mut ds);
                let k = self.rng.range(2, ds.len().min(3));
                let mut groups: Vec<Vec<&String>> = vec![vec![]; k];
                for (i, d) in ds.into_iter().enumerate() {
                    if i < k {
                        groups[i].push(d);
                    } else if self.rng.chance(1, 2) {
                        let g = self.rng.below(k);
                        groups[g].push(d);
                    }
                }
                let mut v = vec![];
                for g in groups {
                    v.push(self.pol_rec(st, &g, budget, depth + 1));
                }
                Pol::And(v)
            }
            _ => {
                let k = self.rng.range(2, 3);
                let mut v = vec![];
                for _ in 0..k {
                    v.push(self.pol_rec(st, dims, budget, depth + 1));
                }
                Pol::Or(v)
            }
        }
    }

    /// A policy that is invalid on purpose; returns the documented reason.
    fn invalid_policy(&mut self, st: &MStruct, for_encryption: bool) -> Pol {
        let attrs = st.all_attrs();
        // a disjunction only one clause of which is invalid, before or after valid ones: the call
        // must fail as a whole (and must not have acted on the valid clauses)
        if !attrs.is_empty() && self.rng.chance(1, 3) {
            let bad = if self.rng.chance(1, 2) { Pol::attr("Nope", "A") } else { Pol::attr(&attrs[0].0, "Missing") };
            let good = self.policy(st, 3);
            if good != Pol::All {
                let mut v = vec![good];
                if self.rng.chance(1, 2) {
                    v.push(self.policy(st, 2));
                    v.retain(|p| *p != Pol::All);
                }
                let at = self.rng.below(v.len() + 1);
                v.insert(at, bad);
                return Pol::Or(v);
            }
        }
        match self.rng.below(if for_encryption { 3 } else { 4 }) {
            0 => Pol::attr("Nope", "A"),
            // an unknown attribute before / after a known one of the same dimension
            2 | 3 if !for_encryption => {
                if let Some((d, a)) = attrs.first() {
                    let known = Pol::attr(d, &a.name);
                    let ghost = Pol::attr(d, "Ghost");
                    if self.rng.chance(1, 2) {
                        Pol::And(vec![ghost, known])
                    } else {
                        Pol::And(vec![known, ghost])
                    }
                } else {
                    Pol::attr("Nope", "A")
                }
            }
            1 => {
                if let Some((d, _)) = attrs.first() {
                    Pol::attr(d, "Missing")
                } else {
                    Pol::attr("Nope", "A")
                }
            }
            _ => {
                // two attributes of one dimension in a single conjunction
                for (dn, d) in &st.dims {
                    if d.attrs.len() >= 2 {
                        return Pol::And(vec![Pol::attr(dn, &d.attrs[0].name), Pol::attr(dn, &d.attrs[1].name)]);
                    }
                }
                Pol::attr("Nope", "A")
            }
        }
    }

    /// An encryption policy one conjunction of which names the same dimension twice.
    fn dup_clause_policy(&mut self, st: &MStruct) -> Pol {
        let cands: Vec<&String> = st.dims.iter().filter(|(_, d)| d.attrs.len() >= 2).map(|(n, _)| n).collect();
        if cands.is_empty() {
            return self.policy(st, 4);
        }
        let dn = (*self.rng.pick(&cands)).clone();
        let d = &st.dims[&dn];
        let i = self.rng.below(d.attrs.len());
        let mut j = self.rng.below(d.attrs.len() - 1);
        if j >= i {
            j += 1;
        }
        let a = Pol::attr(&dn, &d.attrs[i].name);
        let b = Pol::attr(&dn, &d.attrs[j].name);
        let others: Vec<(String, String)> =
            st.all_attrs().into_iter().filter(|(od, _)| od != &dn).map(|(od, oa)| (od, oa.name)).collect();
        if others.is_empty() {
            return Pol::And(vec![a, b]);
        }
        let (od, oa) = self.rng.pick(&others).clone();
        let o = Pol::attr(&od, &oa);
        match self.rng.below(4) {
            0 => Pol::And(vec![a, b]),
            1 => Pol::And(vec![Pol::Or(vec![a, o]), b]),
            2 => Pol::And(vec![a, o, b]),
            _ => Pol::Or(vec![Pol::And(vec![a, b]), o]),
        }
    }

    pub fn initial_structure(&mut self, p: &Profile) -> Vec<Op> {
        let mut ops = vec![];
        let n_dims = self.rng.range(1, p.max_dims);
        let mut dnames: Vec<&str> = Self::dim_names(p).to_vec();
        self.rng.shuffle(&mut dnames);
        let hint_mode = if p.random_hints { self.rng.below(4) } else { 3 };
        for dn in dnames.into_iter().take(n_dims) {
            let ordered = self.rng.chance(1, 2);
            ops.push(Op::AddDim { name: dn.to_string(), ordered });
            if p.id_churn && ops.len() == 1 && self.rng.chance(1, 3) {
                // push the attribute id counter past 128 (two LEB128 bytes) before anything real exists
                let n = self.rng.range(126, 135);
                for i in 0..n {
                    ops.push(Op::AddAttr { dim: dn.to_string(), name: format!("z{i}"), hybrid: false, after: None });
                    ops.push(Op::DelAttr { dim: dn.to_string(), name: format!("z{i}") });
                }
            }
            // keep |Ω| below a few hundred rights: four dimensions get at most three attributes each
            let cap = if n_dims >= 4 { p.max_attrs.min(3) } else { p.max_attrs };
            let n_attrs = self.rng.range(1, cap);
            let mut anames: Vec<&str> = Self::attr_names(p).to_vec();
            self.rng.shuffle(&mut anames);
            let mut placed: Vec<String> = vec![];
            for an in anames.into_iter().take(n_attrs) {
                let hybrid = match hint_mode {
                    0 => false,
                    1 => true,
                    2 => self.rng.chance(1, 2),
                    _ => self.rng.chance(1, 5),
                };
                let after = if ordered && !placed.is_empty() && self.rng.chance(2, 3) {
                    Some(self.rng.pick(&placed).clone())
                } else {
                    None
                };
                placed.push(an.to_string());
                ops.push(Op::AddAttr { dim: dn.to_string(), name: an.to_string(), hybrid, after });
            }
            if p.edited_initial_structure && self.rng.chance(1, 2) {
                // extra attributes, then deletions / renames: the final order of a hierarchy is
                // then the result of removals in the middle, at the bottom and at the top
                let extras = ["Z1", "Z2", "Z3"];
                let k = self.rng.range(1, 3);
                for e in extras.iter().take(k) {
                    let after = if ordered && !placed.is_empty() && self.rng.chance(2, 3) { Some(self.rng.pick(&placed).clone()) } else { None };
                    placed.push(e.to_string());
                    ops.push(Op::AddAttr { dim: dn.to_string(), name: e.to_string(), hybrid: self.rng.chance(1, 3), after });
                }
                for e in extras.iter().take(k) {
                    if self.rng.chance(3, 4) {
                        ops.push(Op::DelAttr { dim: dn.to_string(), name: e.to_string() });
                    } else {
                        ops.push(Op::Rename { dim: dn.to_string(), old: e.to_string(), new: format!("{e}r") });
                    }
                }
                if placed.len() > k + 1 && self.rng.chance(1, 3) {
                    // also delete one of the regular attributes
                    let victim = placed[self.rng.below(placed.len() - k)].clone();
                    ops.push(Op::DelAttr { dim: dn.to_string(), name: victim });
                }
            }
        }
        ops.push(Op::Update);
        ops
    }

    pub fn next_op(&mut self, w: &World) -> Op {
        let p = &w.p;
        let wt = &p.w;
        let st = &w.mskm.st;
        let weights = [
            wt.add_dim, wt.del_dim, wt.add_attr, wt.del_attr, wt.rename, wt.disable, wt.update, wt.rekey, wt.prune,
            wt.keygen, wt.refresh, wt.encaps, wt.recaps, wt.roundtrip, wt.derive_mpk, wt.forged, wt.matrix,
        ];
        let invalid = self.rng.chance(p.invalid_pct, 100);
        // un-stick a master key whose update fails because of a born-disabled right
        if w.last_update_failed_born_disabled && self.rng.chance(3, 4) {
            // the culprits are attributes the master key has no secret for yet (born disabled
            // themselves, or new next to a disabled one)
            let mut cands = vec![];
            for (dn, a) in st.all_attrs() {
                let mut r = RightT::new();
                r.insert(a.tok);
                if !w.mskm.secrets.contains_key(&r) {
                    cands.push((dn, a.name));
                }
            }
            if !cands.is_empty() {
                let (dim, name) = self.rng.pick(&cands).clone();
                return Op::DelAttr { dim, name };
            }
        }
        for _ in 0..20 {
            let k = self.rng.weighted(&weights);
            let attrs = st.all_attrs();
            let dims: Vec<&String> = st.dims.keys().collect();
            match k {
                0 => {
                    if invalid && !dims.is_empty() {
                        return Op::AddDim { name: (*self.rng.pick(&dims)).clone(), ordered: self.rng.chance(1, 2) };
                    }
                    if dims.len() >= p.max_dims {
                        continue;
                    }
                    let free: Vec<&&str> = Self::dim_names(p).iter().filter(|n| !st.dims.contains_key(**n)).collect();
                    if free.is_empty() {
                        continue;
                    }
                    return Op::AddDim { name: self.rng.pick(&free).to_string(), ordered: self.rng.chance(1, 2) };
                }
                1 => {
                    if invalid {
                        return Op::DelDim { name: "Nope".into() };
                    }
                    if dims.len() <= 1 {
                        continue;
                    }
                    return Op::DelDim { name: (*self.rng.pick(&dims)).clone() };
                }
                2 => {
                    if dims.is_empty() {
                        continue;
                    }
                    let dn = (*self.rng.pick(&dims)).clone();
                    let d = &st.dims[&dn];
                    if invalid {
                        return match self.rng.below(3) {
                            0 => Op::AddAttr { dim: "Nope".into(), name: "A".into(), hybrid: false, after: None },
                            1 if !d.attrs.is_empty() => Op::AddAttr { dim: dn, name: self.rng.pick(&d.attrs).name.clone(), hybrid: false, after: None },
                            _ if d.ordered => Op::AddAttr { dim: dn, name: "Fresh".into(), hybrid: false, after: Some("Missing".into()) },
                            _ => Op::AddAttr { dim: "Nope".into(), name: "A".into(), hybrid: false, after: None },
                        };
                    }
                    if d.attrs.len() >= p.max_attrs {
                        continue;
                    }
                    let free: Vec<&&str> = Self::attr_names(p).iter().filter(|n| !d.attrs.iter().any(|a| a.name == **n)).collect();
                    if free.is_empty() {
                        continue;
                    }
                    let after = if !d.attrs.is_empty() && self.rng.chance(1, 2) {
                        // `after` is ignored for unordered dimensions
                        Some(self.rng.pick(&d.attrs).name.clone())
                    } else {
                        None
                    };
                    let hybrid = if p.random_hints { self.rng.chance(1, 2) } else { self.rng.chance(1, 6) };
                    return Op::AddAttr { dim: dn, name: self.rng.pick(&free).to_string(), hybrid, after };
                }
                3 => {
                    if invalid {
                        return if dims.is_empty() || self.rng.chance(1, 2) {
                            Op::DelAttr { dim: "Nope".into(), name: "A".into() }
                        } else {
                            Op::DelAttr { dim: (*self.rng.pick(&dims)).clone(), name: "Missing".into() }
                        };
                    }
                    if attrs.len() <= 1 {
                        continue;
                    }
                    let (d, a) = self.rng.pick(&attrs).clone();
                    return Op::DelAttr { dim: d, name: a.name };
                }
                4 => {
                    if attrs.is_empty() {
                        continue;
                    }
                    let (d, a) = self.rng.pick(&attrs).clone();
                    if invalid {
                        let other = st.dims[&d].attrs.iter().find(|x| x.name != a.name).map(|x| x.name.clone());
                        return match other {
                            Some(o) if self.rng.chance(1, 2) => Op::Rename { dim: d, old: a.name, new: o },
                            _ => Op::Rename { dim: d, old: "Missing".into(), new: "Other".into() },
                        };
                    }
                    let free: Vec<&&str> = Self::attr_names(p).iter().filter(|n| !st.dims[&d].attrs.iter().any(|x| x.name == **n)).collect();
                    if free.is_empty() {
                        continue;
                    }
                    return Op::Rename { dim: d, old: a.name, new: self.rng.pick(&free).to_string() };
                }
                5 => {
                    if invalid || attrs.is_empty() {
                        return Op::Disable { dim: dims.first().map(|d| (*d).clone()).unwrap_or("Nope".into()), name: "Missing".into() };
                    }
                    let (d, a) = self.rng.pick(&attrs).clone();
                    return Op::Disable { dim: d, name: a.name };
                }
                6 => return Op::Update,
                7 | 8 | 9 => {
                    let pol = if invalid { self.invalid_policy(st, false) } else { self.policy(st, 5) };
                    let mut text = pol.print(&mut self.rng);
                    if invalid && st.user_rights(&pol).is_err() && pol.dnf().iter().all(|c| !c.is_empty()) && self.rng.chance(1, 3) {
                        // the same invalid clause, OR-ed with broadcast as an object (see the probe)
                        text = format!("{RAW_TAUTOLOGY}{text}");
                    }
                    return match k {
                        7 => Op::Rekey { pol, text },
                        8 => Op::Prune { pol, text },
                        _ => Op::Keygen { pol, text },
                    };
                }
                10 => {
                    if w.usks.is_empty() {
                        continue;
                    }
                    return Op::Refresh { usk: self.rng.below(w.usks.len()), keep: self.rng.chance(1, 2) };
                }
                11 => {
                    // any public key published so far, biased to the newest
                    let mi = if self.rng.chance(2, 3) { w.mpks.len() - 1 } else { self.rng.below(w.mpks.len()) };
                    let mst = &w.mpks[mi].m.st;
                    let pol = if invalid {
                        self.invalid_policy(mst, true)
                    } else if w.p.name == "static-cover" && self.rng.chance(1, 6) {
                        self.dup_clause_policy(mst)
                    } else {
                        self.policy(mst, 4)
                    };
                    let text = pol.print(&mut self.rng);
                    return Op::Encaps { mpk: mi, pol, text };
                }
                12 => {
                    if w.encs.is_empty() {
                        continue;
                    }
                    // two times out of three an encapsulation with several targets (its audience can
                    // shrink without vanishing)
                    let multi: Vec<usize> = w.encs.iter().enumerate().filter(|(_, e)| e.m.targets.len() >= 2).map(|(i, _)| i).collect();
                    if !multi.is_empty() && self.rng.chance(2, 3) {
                        return Op::Recaps { enc: *self.rng.pick(&multi) };
                    }
                    return Op::Recaps { enc: self.rng.below(w.encs.len()) };
                }
                13 => {
                    let what = match self.rng.below(6) {
                        0 | 1 => RT::Msk,
                        2 => RT::Mpk,
                        3 => RT::Usk,
                        4 => RT::Enc,
                        _ => RT::Structure,
                    };
                    return Op::RoundTrip { what, idx: self.rng.below(64) };
                }
                14 => return Op::DeriveMpk,
                15 => {
                    if w.usks.is_empty() {
                        continue;
                    }
                    return Op::Forged { usk: self.rng.below(w.usks.len()), keep: self.rng.chance(1, 2), bit: self.rng.below(96 * 8), kind: self.rng.below(5) as u8 };
                }
                _ => return Op::Matrix,
            }
        }
        Op::Matrix
    }
}

/// Runs one history of `profile` from `seed`; returns the world (stats, flags, findings).
pub fn run_history(profile: &Profile, seed: u64, config: &str) -> Option<World> {
    let mut g = Gen { rng: Rng::new(seed) };
    let replay = json!({"kind": "history", "property": profile.prop, "profile": profile.name, "seed": seed, "config": config});
    // one history in five runs at tracing level 2 or 3
    let extra = match seed % 10 {
        3 => 1,
        7 => 2,
        _ => 0,
    };
    let mut w = World::with_tracers(profile.clone(), replay, extra, seed)?;
    for op in g.initial_structure(profile) {
        w.step(&op);
    }
    // the initial construction is not part of the history proper
    w.flags = Flags::default();
    w.struct_shape = w
        .mskm
        .st
        .dims
        .values()
        .map(|d| format!("{}{}{}", if d.ordered { 'h' } else { 'a' }, d.attrs.len(), d.attrs.iter().map(|a| if a.hybrid { 'H' } else { 'c' }).collect::<String>()))
        .collect::<Vec<_>>()
        .join("/");
    if profile.omega_targets && !w.stopped {
        // every right of Ω as a single-conjunction encryption policy
        let st = w.mskm.st.clone();
        let mut rights: Vec<RightT> = st.omega().keys().cloned().collect();
        g.rng.shuffle(&mut rights);
        rights.truncate(150);
        for r in rights {
            let pol = if r.is_empty() {
                Pol::All
            } else {
                let mut v: Vec<Pol> = r.iter().filter_map(|t| st.attr_by_tok(*t)).map(|(d, a)| Pol::attr(d, &a.name)).collect();
                g.rng.shuffle(&mut v);
                if v.len() == 1 {
                    v.pop().unwrap()
                } else {
                    Pol::And(v)
                }
            };
            let text = pol.print(&mut g.rng);
            let mpk = w.mpks.len() - 1;
            w.step(&Op::Encaps { mpk, pol, text });
        }
    }
    let n = g.rng.range(profile.ops.0, profile.ops.1);
    for _ in 0..n {
        if w.stopped {
            break;
        }
        let op = g.next_op(&w);
        w.step(&op);
    }
    if !w.stopped {
        w.step(&Op::Matrix);
    }
    Some(w)
}
