//! C07 — encapsulations and ciphertexts are non-malleable (fault enumeration).
//!
//! Every bit of several serialized encapsulations, every structural rearrangement the wire
//! reader/writer can express, and PKE / header ciphertext alterations; every mutant that still
//! deserializes to a *different* object is given to every key: `Ok(Some(_))` is a violation.

use std::sync::{Arc, Mutex};

use cosmian_crypto_core::Aes256Gcm;
use serde_json::json;

use crate::{
    real::{self, *},
    report::{Finding, Stats},
    rng::{fnv, Rng},
    wire::{self, WHeader, WXenc},
};

pub struct Fx {
    pub cc: Covercrypt,
    pub msk: MasterSecretKey,
    pub mpk: MasterPublicKey,
    pub keys: Vec<(String, UserSecretKey)>,
}

pub fn fx() -> Option<Fx> {
    let cc = Covercrypt::default();
    let (mut msk, _) = call(|| cc.setup()).ok()?;
    let st = &mut msk.access_structure;
    st.add_anarchy("D".into()).ok()?;
    st.add_hierarchy("H".into()).ok()?;
    st.add_attribute(QualifiedAttribute::new("D", "A"), hint(false), None).ok()?;
    st.add_attribute(QualifiedAttribute::new("D", "B"), hint(false), None).ok()?;
    st.add_attribute(QualifiedAttribute::new("H", "L"), hint(false), None).ok()?;
    st.add_attribute(QualifiedAttribute::new("H", "T"), hint(true), Some("L")).ok()?;
    let mpk = call(|| cc.update_msk(&mut msk)).ok()?;
    let mut keys = vec![];
    for pol in ["D::A && H::T", "D::A && H::L", "D::B && H::L", "D::B && H::T", "*"] {
        let ap = AccessPolicy::parse(pol).ok()?;
        keys.push((pol.to_string(), call(|| cc.generate_user_secret_key(&mut msk, &ap)).ok()?));
    }
    Some(Fx { cc, msk, mpk, keys })
}

pub const BASES: &[(&str, &str)] = &[
    ("classic-1", "D::A && H::L"),
    ("classic-3", "D::A && H::L || D::B && H::L || D::A"),
    ("hybrid-1", "D::A && H::T"),
    ("hybrid-2", "D::A && H::T || D::B && H::T"),
    ("mixed-2", "D::A && H::T || D::A && H::L"),
    ("broadcast", "*"),
];

struct Base {
    name: &'static str,
    enc: XEnc,
    bytes: Vec<u8>,
    w: WXenc,
    secret: [u8; 32],
}

fn region(fields: &[wire::Field], w: &WXenc, byte: usize) -> &'static str {
    // layout: tag | n_traps | traps | flavour | n_encs | (ct F)*
    if byte < wire::TAG {
        return "tag";
    }
    for f in fields {
        if byte >= f.off && byte < f.off + f.len {
            return f.kind;
        }
    }
    let traps_end = wire::TAG + 1 + w.traps.len() * wire::POINT;
    if byte < traps_end {
        return "traps";
    }
    let entry = if w.hybrid { wire::CT + wire::SEED } else { wire::SEED };
    let start = traps_end + 2;
    if byte >= start {
        let off = (byte - start) % entry;
        if w.hybrid && off < wire::CT {
            return "mlkem-ciphertext";
        }
        return "masked-seed";
    }
    "other"
}

fn judge(cc: &Covercrypt, fxx: &Fx, base: &Base, mutant: &[u8], op: &str, st: &mut Stats) {
    if mutant == base.bytes.as_slice() {
        // e.g. two equal bytes swapped: nothing was modified
        st.bump("mutants_identical_to_the_base");
        return;
    }
    st.bump("mutants");
    let x = match de::<XEnc>(mutant) {
        Out::Ok(x) => x,
        Out::Err(_) => {
            st.bump("mutants_rejected_by_deserialization");
            return;
        }
        Out::Panic(m) => {
            st.findings.push(Finding {
                prop: "C07".into(),
                signature: format!("C07:deserialization-panics:{}", op.split('/').next().unwrap_or(op)),
                detail: format!("{} {op}: {m}", base.name),
                replay: json!({"monitor": "c07", "base": base.name, "op": op, "mutant": wire::hex(mutant)}),
            });
            return;
        }
    };
    let equal = x == base.enc;
    if equal {
        // different bytes, same object: the serialized form itself is malleable if any key still
        // opens it ("changing any byte of its serialized form makes decapsulation return no
        // secret"); counted separately, judged by the same oracle
        st.bump("mutants_decoding_to_the_original_object");
    }
    st.bump("mutants_used");
    st.shapes.insert(fnv(format!("{}|{}", base.name, op.split('#').next().unwrap_or(op)).as_bytes()));
    for (label, usk) in &fxx.keys {
        let out = call(|| cc.decaps(usk, &x));
        st.bump("decaps_of_mutants");
        match out {
            Out::Ok(None) | Out::Err(_) => {}
            Out::Ok(Some(s)) => {
                let same = real::secret_bytes(&s) == base.secret;
                st.findings.push(Finding {
                    prop: "C07".into(),
                    signature: if equal {
                        format!("C07:modified-bytes-decode-to-the-original-and-open:{}", op.split('#').next().unwrap_or(op))
                    } else {
                        format!("C07:modified-encapsulation-opens:{}:{}", base.name, op.split('#').next().unwrap_or(op))
                    },
                    detail: format!("{} {op}: key {label} obtained {} from a modified encapsulation", base.name, if same { "the original secret" } else { "a different secret" }),
                    replay: json!({"monitor": "c07", "base": base.name, "op": op, "mutant": wire::hex(mutant), "key": label}),
                });
                return;
            }
            Out::Panic(m) => {
                st.findings.push(Finding {
                    prop: "C07".into(),
                    signature: format!("C07:decaps-panics-on-modified-encapsulation:{}", op.split('/').next().unwrap_or(op)),
                    detail: format!("{} {op}: key {label}: {m}", base.name),
                    replay: json!({"monitor": "c07", "base": base.name, "op": op, "mutant": wire::hex(mutant)}),
                });
                return;
            }
        }
    }
}

fn structural(base: &Base, others: &[&Base]) -> Vec<(String, Vec<u8>)> {
    let w = &base.w;
    let mut out: Vec<(String, Vec<u8>)> = vec![];
    let n = w.encs.len();
    // permutations (all transpositions + rotation + reverse)
    for i in 0..n {
        for j in i + 1..n {
            let mut m = w.clone();
            m.encs.swap(i, j);
            out.push((format!("permute-entries#{i}-{j}"), m.write()));
            let mut m = w.clone();
            let (a, b) = (m.encs[i].1.clone(), m.encs[j].1.clone());
            m.encs[i].1 = b;
            m.encs[j].1 = a;
            out.push((format!("swap-masked-seeds#{i}-{j}"), m.write()));
            if w.hybrid {
                let mut m = w.clone();
                let (a, b) = (m.encs[i].0.clone(), m.encs[j].0.clone());
                m.encs[i].0 = b;
                m.encs[j].0 = a;
                out.push((format!("swap-mlkem-ciphertexts#{i}-{j}"), m.write()));
            }
        }
    }
    if n > 1 {
        let mut m = w.clone();
        m.encs.reverse();
        out.push(("permute-entries#reverse".into(), m.write()));
        let mut m = w.clone();
        m.encs.rotate_left(1);
        out.push(("permute-entries#rotate".into(), m.write()));
    }
    for i in 0..n {
        let mut m = w.clone();
        m.encs.remove(i);
        out.push((format!("drop-entry#{i}"), m.write()));
        let mut m = w.clone();
        let e = m.encs[i].clone();
        m.encs.push(e.clone());
        out.push((format!("duplicate-entry#{i}-append"), m.write()));
        let mut m = w.clone();
        m.encs.insert(0, e);
        out.push((format!("duplicate-entry#{i}-prepend"), m.write()));
    }
    // traps
    for i in 0..w.traps.len() {
        let mut m = w.clone();
        m.traps.remove(i);
        out.push((format!("drop-trap#{i}"), m.write()));
        let mut m = w.clone();
        let t = m.traps[i].clone();
        m.traps.push(t);
        out.push((format!("append-trap#{i}"), m.write()));
    }
    if w.traps.len() > 1 {
        let mut m = w.clone();
        m.traps.reverse();
        out.push(("permute-traps#reverse".into(), m.write()));
    }
    // flavour byte, without resizing (raw byte) and with resizing
    {
        let mut raw = base.bytes.clone();
        let pos = wire::TAG + 1 + w.traps.len() * wire::POINT;
        raw[pos] ^= 1;
        out.push(("flip-flavour#raw".into(), raw));
        let mut m = w.clone();
        if w.hybrid {
            m.hybrid = false;
            for e in &mut m.encs {
                e.0.clear();
            }
        } else {
            m.hybrid = true;
            for e in &mut m.encs {
                e.0 = vec![0x55; wire::CT];
            }
        }
        out.push(("flip-flavour#resized".into(), m.write()));
    }
    // multi-byte perturbations that keep simple checksums (xor, sum) of a field unchanged
    {
        let fields: Vec<(&str, Box<dyn Fn(&mut WXenc) -> &mut Vec<u8>>)> = vec![
            ("tag", Box::new(|m: &mut WXenc| &mut m.tag)),
            ("masked-seed", Box::new(|m: &mut WXenc| &mut m.encs[0].1)),
        ];
        for (fname, get) in fields {
            let mut m = w.clone();
            get(&mut m).swap(0, 1);
            out.push((format!("swap-two-bytes-of-{fname}#0-1"), m.write()));
            let mut m = w.clone();
            {
                let f = get(&mut m);
                let l = f.len();
                f.swap(2, l - 1);
            }
            out.push((format!("swap-two-bytes-of-{fname}#2-last"), m.write()));
            let mut m = w.clone();
            get(&mut m).reverse();
            out.push((format!("reverse-{fname}#all"), m.write()));
            let mut m = w.clone();
            get(&mut m).rotate_left(1);
            out.push((format!("rotate-{fname}#1"), m.write()));
            let mut m = w.clone();
            {
                let f = get(&mut m);
                f[3] ^= 0x10;
                f[9] ^= 0x10;
            }
            out.push((format!("flip-same-bit-in-two-bytes-of-{fname}#3-9"), m.write()));
            let mut m = w.clone();
            {
                let f = get(&mut m);
                f[4] = f[4].wrapping_add(1);
                f[5] = f[5].wrapping_sub(1);
            }
            out.push((format!("plus-one-minus-one-in-{fname}#4-5"), m.write()));
        }
        if w.hybrid {
            let mut m = w.clone();
            m.encs[0].0.swap(10, 11);
            out.push(("swap-two-bytes-of-mlkem-ciphertext#10-11".into(), m.write()));
            let mut m = w.clone();
            m.encs[0].0[20] ^= 0x01;
            m.encs[0].0[700] ^= 0x01;
            out.push(("flip-same-bit-in-two-bytes-of-mlkem-ciphertext#20-700".into(), m.write()));
        }
    }
    // splices with other encapsulations (same and different policies)
    for o in others {
        let ow = &o.w;
        let tagn = if o.name == base.name { "same-policy" } else { "other-policy" };
        let mut m = w.clone();
        m.tag = ow.tag.clone();
        out.push((format!("splice-tag#{tagn}:{}", o.name), m.write()));
        let mut m = w.clone();
        m.traps = ow.traps.clone();
        out.push((format!("splice-traps#{tagn}:{}", o.name), m.write()));
        if ow.hybrid == w.hybrid {
            let mut m = w.clone();
            m.encs = ow.encs.clone();
            out.push((format!("splice-entries#{tagn}:{}", o.name), m.write()));
            let mut m = w.clone();
            m.encs.extend(ow.encs.iter().cloned());
            out.push((format!("append-foreign-entries#{tagn}:{}", o.name), m.write()));
            let mut m = ow.clone();
            m.encs[0] = w.encs[0].clone();
            out.push((format!("transplant-entry#{tagn}:{}", o.name), m.write()));
        }
        let mut m = w.clone();
        m.tag = ow.tag.clone();
        m.traps = ow.traps.clone();
        out.push((format!("splice-tag-and-traps#{tagn}:{}", o.name), m.write()));
    }
    out
}

fn pke_and_header(fxx: &Fx, st: &mut Stats, rng: &mut Rng) {
    type P = Covercrypt;
    let aps: Vec<AccessPolicy> = ["D::A && H::L", "D::A && H::T"].iter().map(|p| AccessPolicy::parse(p).unwrap()).collect();
    let usk = &fxx.keys[0].1; // D::A && H::T covers both
    let mut ctxs = vec![];
    for ap in &aps {
        for len in [0usize, 1, 16, 33] {
            let ptx = rng.bytes(len);
            if let Out::Ok(c) = call(|| <P as PkeAc<{ Aes256Gcm::KEY_LENGTH }, Aes256Gcm>>::encrypt(&fxx.cc, &fxx.mpk, ap, &ptx)) {
                ctxs.push((c, ptx));
            }
        }
    }
    let dec = |c: &(XEnc, Vec<u8>)| call(|| <P as PkeAc<{ Aes256Gcm::KEY_LENGTH }, Aes256Gcm>>::decrypt(&fxx.cc, usk, c));
    for (k, (c, ptx)) in ctxs.iter().enumerate() {
        match dec(c) {
            Out::Ok(Some(p)) if p.as_slice() == ptx.as_slice() => {}
            o => {
                st.inconclusive.push(format!("PKE base does not decrypt: {}", o.describe()));
                return;
            }
        }
        for bit in 0..c.1.len() * 8 {
            let mut m = c.clone();
            m.1[bit / 8] ^= 1 << (bit % 8);
            st.bump("pke_mutants");
            let o = dec(&m);
            if !matches!(o, Out::Err(_)) {
                st.findings.push(Finding {
                    prop: "C07".into(),
                    signature: format!("C07:modified-pke-ciphertext-accepted:bitflip:{}", if o.is_panic() { "panic" } else { "ok" }),
                    detail: format!("plaintext {} bytes, bit {bit}: {}", ptx.len(), o.describe()),
                    replay: json!({"monitor": "c07", "kind": "pke"}),
                });
                return;
            }
        }
        for cut in 0..c.1.len() {
            let m = (c.0.clone(), c.1[..cut].to_vec());
            st.bump("pke_mutants");
            let o = dec(&m);
            if !matches!(o, Out::Err(_)) {
                st.findings.push(Finding {
                    prop: "C07".into(),
                    signature: format!("C07:modified-pke-ciphertext-accepted:truncation:{}", if o.is_panic() { "panic" } else { "ok" }),
                    detail: format!("cut {cut}/{}: {}", c.1.len(), o.describe()),
                    replay: json!({"monitor": "c07", "kind": "pke"}),
                });
                return;
            }
        }
        // KEM part swapped with another ciphertext's
        for (k2, (c2, _)) in ctxs.iter().enumerate() {
            if k2 == k {
                continue;
            }
            let m = (c2.0.clone(), c.1.clone());
            st.bump("pke_mutants");
            let o = dec(&m);
            if !matches!(o, Out::Err(_)) {
                st.findings.push(Finding {
                    prop: "C07".into(),
                    signature: "C07:modified-pke-ciphertext-accepted:kem-part-swapped".into(),
                    detail: o.describe(),
                    replay: json!({"monitor": "c07", "kind": "pke"}),
                });
                return;
            }
        }
        st.shapes.insert(fnv(format!("pke|{k}").as_bytes()));
    }
    // headers
    let mut hs = vec![];
    for ap in &aps {
        for ml in [0usize, 5, 40] {
            let meta = rng.bytes(ml);
            if let Out::Ok((_, h)) = call(|| EncryptedHeader::generate(&fxx.cc, &fxx.mpk, ap, Some(&meta), Some(b"aad"))) {
                hs.push(h);
            }
        }
    }
    for (k, h) in hs.iter().enumerate() {
        let Some(em) = &h.encrypted_metadata else { continue };
        for bit in 0..em.len() * 8 {
            let mut m = em.clone();
            m[bit / 8] ^= 1 << (bit % 8);
            let hh = EncryptedHeader { encapsulation: h.encapsulation.clone(), encrypted_metadata: Some(m) };
            st.bump("header_mutants");
            let o = call(|| hh.decrypt(&fxx.cc, usk, Some(b"aad")));
            if !matches!(o, Out::Err(_)) {
                st.findings.push(Finding {
                    prop: "C07".into(),
                    signature: format!("C07:modified-header-metadata-accepted:bitflip:{}", if o.is_panic() { "panic" } else { "ok" }),
                    detail: format!("bit {bit}: {}", o.describe()),
                    replay: json!({"monitor": "c07", "kind": "header"}),
                });
                return;
            }
        }
        for (k2, h2) in hs.iter().enumerate() {
            if k2 == k {
                continue;
            }
            let hh = EncryptedHeader { encapsulation: h.encapsulation.clone(), encrypted_metadata: h2.encrypted_metadata.clone() };
            st.bump("header_mutants");
            let o = call(|| hh.decrypt(&fxx.cc, usk, Some(b"aad")));
            if !matches!(o, Out::Err(_)) {
                st.findings.push(Finding {
                    prop: "C07".into(),
                    signature: "C07:modified-header-metadata-accepted:swapped-between-headers".into(),
                    detail: o.describe(),
                    replay: json!({"monitor": "c07", "kind": "header"}),
                });
                return;
            }
        }
        // the wire form: metadata length field and bytes through WHeader
        if let Some(Ok(w)) = ser(h).ok().map(|b| WHeader::parse(&b)) {
            let mut m = w.clone();
            m.meta.push(0);
            if let Out::Ok(hh) = de::<EncryptedHeader>(&m.write()) {
                st.bump("header_mutants");
                let o = call(|| hh.decrypt(&fxx.cc, usk, Some(b"aad")));
                if !matches!(o, Out::Err(_)) {
                    st.findings.push(Finding {
                        prop: "C07".into(),
                        signature: "C07:modified-header-metadata-accepted:extended".into(),
                        detail: o.describe(),
                        replay: json!({"monitor": "c07", "kind": "header"}),
                    });
                }
            }
        }
        st.shapes.insert(fnv(format!("hdr|{k}").as_bytes()));
    }
}

/// Wide encapsulations (130 targets, classic and hybridized): one bit flipped in every entry in
/// turn (masked seed, and ML-KEM ciphertext when hybridized), plus entry-level rearrangements at
/// the positions around 127/128/129. Keys: three holders of one targeted attribute each, one
/// holder of a non-targeted attribute.
fn wide(st: &mut Stats, rng: &mut Rng) {
    for hybrid in [false, true] {
        let cc = Covercrypt::default();
        let Out::Ok((mut msk, _)) = call(|| cc.setup()) else { return };
        let _ = msk.access_structure.add_anarchy("W".into());
        for i in 0..132 {
            let _ = msk.access_structure.add_attribute(QualifiedAttribute::new("W", &format!("a{i}")), hint(hybrid), None);
        }
        let Out::Ok(mpk) = call(|| cc.update_msk(&mut msk)) else {
            st.inconclusive.push("wide fixture failed".into());
            return;
        };
        let pol = (0..130).map(|i| format!("W::a{i}")).collect::<Vec<_>>().join(" || ");
        let ap = AccessPolicy::parse(&pol).unwrap();
        let Out::Ok((secret, enc)) = call(|| cc.encaps(&mpk, &ap)) else { return };
        let Some(bytes) = ser(&enc).ok() else { return };
        let Ok(w) = WXenc::parse(&bytes) else {
            st.inconclusive.push("wire reader rejects the wide base".into());
            return;
        };
        if w.encs.len() != 130 || w.hybrid != hybrid {
            st.inconclusive.push(format!("wide base has {} entries, hybrid={}", w.encs.len(), w.hybrid));
            return;
        }
        let mut keys = vec![];
        for a in [3usize, 64, 129, 131] {
            let kp = AccessPolicy::parse(&format!("W::a{a}")).unwrap();
            if let Out::Ok(u) = call(|| cc.generate_user_secret_key(&mut msk, &kp)) {
                keys.push((a, u));
            }
        }
        // sanity: holders open, the outsider does not
        for (a, u) in &keys {
            let r = call(|| cc.decaps(u, &enc));
            let ok = match (&r, *a < 130) {
                (Out::Ok(Some(s)), true) => real::secret_bytes(s) == real::secret_bytes(&secret),
                (Out::Ok(None), false) => true,
                _ => false,
            };
            if !ok {
                st.inconclusive.push(format!("wide base: key a{a} behaves unexpectedly on the untouched encapsulation"));
                return;
            }
        }
        let name = if hybrid { "hybrid-130" } else { "classic-130" };
        let mut mutants: Vec<(String, WXenc)> = vec![];
        for i in 0..w.encs.len() {
            let mut m = w.clone();
            let b = rng.below(32 * 8);
            m.encs[i].1[b / 8] ^= 1 << (b % 8);
            mutants.push((format!("bitflip/masked-seed#entry{i}"), m));
            if hybrid {
                let mut m = w.clone();
                let b = rng.below(wire::CT * 8);
                m.encs[i].0[b / 8] ^= 1 << (b % 8);
                mutants.push((format!("bitflip/mlkem-ciphertext#entry{i}"), m));
            }
        }
        for i in [0usize, 1, 126, 127, 128, 129] {
            let mut m = w.clone();
            m.encs.remove(i);
            mutants.push((format!("drop-entry#entry{i}"), m));
            let mut m = w.clone();
            let e = m.encs[i].clone();
            m.encs.insert(i, e);
            mutants.push((format!("duplicate-entry#entry{i}"), m));
            let mut m = w.clone();
            m.encs.swap(i, (i + 1) % 130);
            mutants.push((format!("permute-entries#entry{i}"), m));
        }
        for (op, m) in mutants {
            let mb = m.write();
            st.bump("mutants");
            let Out::Ok(x) = de::<XEnc>(&mb) else {
                st.bump("mutants_rejected_by_deserialization");
                continue;
            };
            st.bump("mutants_used");
            st.shapes.insert(fnv(format!("{name}|{}", op.split('#').next().unwrap_or("")).as_bytes()));
            for (a, u) in &keys {
                st.bump("decaps_of_mutants");
                match call(|| cc.decaps(u, &x)) {
                    Out::Ok(None) | Out::Err(_) => {}
                    Out::Ok(Some(_)) => {
                        st.findings.push(Finding {
                            prop: "C07".into(),
                            signature: format!("C07:modified-encapsulation-opens:{name}:{}", op.split('#').next().unwrap_or("")),
                            detail: format!("{name} {op}: key W::a{a} obtained a secret from a modified encapsulation"),
                            replay: json!({"monitor": "c07", "base": name, "op": op}),
                        });
                        break;
                    }
                    Out::Panic(p) => {
                        st.findings.push(Finding {
                            prop: "C07".into(),
                            signature: format!("C07:decaps-panics-on-modified-encapsulation:{name}"),
                            detail: format!("{op}: {p}"),
                            replay: json!({"monitor": "c07", "base": name, "op": op}),
                        });
                        break;
                    }
                }
            }
        }
    }
}

pub fn run(tier: &str, seed: u64, threads: usize) -> Stats {
    let mut st = Stats::default();
    let Some(fxx) = fx() else {
        st.inconclusive.push("fixture failed".into());
        return st;
    };
    let fxx = Arc::new(fxx);
    let rounds = if tier == "thorough" { 3 } else { 1 };
    let total = Arc::new(Mutex::new(st));
    for round in 0..rounds {
        // fresh base encapsulations each round (two per policy, for same-policy splices)
        let mut bases: Vec<Base> = vec![];
        for (name, pol) in BASES {
            for _ in 0..2 {
                let ap = AccessPolicy::parse(pol).unwrap();
                let Out::Ok((s, enc)) = call(|| fxx.cc.encaps(&fxx.mpk, &ap)) else {
                    total.lock().unwrap().inconclusive.push(format!("cannot build base {name}"));
                    continue;
                };
                let Some(bytes) = ser(&enc).ok() else { continue };
                let Ok(w) = WXenc::parse(&bytes) else {
                    total.lock().unwrap().inconclusive.push("wire reader rejects a base".into());
                    continue;
                };
                bases.push(Base { name, enc, bytes, w, secret: real::secret_bytes(&s) });
            }
        }
        // sanity: each base opens with an authorized key
        for b in &bases {
            let ok = fxx.keys.iter().any(|(_, u)| matches!(call(|| fxx.cc.decaps(u, &b.enc)), Out::Ok(Some(s)) if real::secret_bytes(&s) == b.secret));
            if !ok {
                total.lock().unwrap().inconclusive.push(format!("base {} opens with no key", b.name));
            }
        }
        let bases = Arc::new(bases);
        // work items: (base index, kind) — bit flips are split in chunks
        let mut items: Vec<(usize, usize, usize)> = vec![]; // (base, from_bit, to_bit) ; from==to==0 → structural
        for (bi, b) in bases.iter().enumerate() {
            if bi % 2 == 1 && tier != "thorough" {
                // the second instance of each policy is only a splice partner in the quick tier
                continue;
            }
            let nbits = b.bytes.len() * 8;
            let chunk = 512;
            let mut f = 0;
            while f < nbits {
                items.push((bi, f, (f + chunk).min(nbits)));
                f += chunk;
            }
            items.push((bi, 0, 0));
        }
        let items = Arc::new(Mutex::new(items));
        let mut hs = vec![];
        for t in 0..threads {
            let items = items.clone();
            let bases = bases.clone();
            let fxx = fxx.clone();
            let total = total.clone();
            hs.push(std::thread::spawn(move || {
                let mut st = Stats::default();
                // the instance only provides the RNG used for shuffling; one per thread, because
                // every call holds the instance's lock for its whole duration
                let cc = Covercrypt::default();
                loop {
                    let item = items.lock().unwrap().pop();
                    let Some((bi, from, to)) = item else { break };
                    let base = &bases[bi];
                    if from == 0 && to == 0 {
                        let others: Vec<&Base> = bases.iter().enumerate().filter(|(j, _)| *j != bi).map(|(_, b)| b).collect();
                        for (op, bytes) in structural(base, &others) {
                            judge(&cc, &fxx, base, &bytes, &op, &mut st);
                        }
                        continue;
                    }
                    let fields = WXenc::parse_fields(&base.bytes).map(|x| x.1).unwrap_or_default();
                    for bit in from..to {
                        let mut m = base.bytes.clone();
                        m[bit / 8] ^= 1 << (bit % 8);
                        let reg = region(&fields, &base.w, bit / 8);
                        judge(&cc, &fxx, base, &m, &format!("bitflip/{reg}#{bit}"), &mut st);
                    }
                }
                if t == 0 && round == 0 {
                    let mut rng = Rng::new(seed);
                    pke_and_header(&fxx, &mut st, &mut rng);
                }
                if t == 1 % threads && round == 0 {
                    let mut rng = Rng::new(seed ^ 0x51de);
                    wide(&mut st, &mut rng);
                }
                let mut seen = std::collections::BTreeSet::new();
                st.findings.retain(|f| seen.insert(f.signature.clone()));
                total.lock().unwrap().merge(st);
            }));
        }
        for h in hs {
            let _ = h.join();
        }
        if round == 0 {
            let mut g = total.lock().unwrap();
            let sizes: Vec<String> = bases.iter().step_by(2).map(|b| format!("{}:{}B/{}entries", b.name, b.bytes.len(), b.w.encs.len())).collect();
            g.sample(json!({"bases": sizes, "keys": fxx.keys.iter().map(|k| k.0.clone()).collect::<Vec<_>>(), "mutations": "every bit; permute/drop/duplicate entries; swap F / ML-KEM ct between entries; splice tag/traps/entries with same- and other-policy encapsulations; drop/append/permute traps; flavour byte raw and resized; PKE and header: every bit, every truncation, swaps"}), 3);
        }
    }
    let st = std::mem::take(&mut *total.lock().unwrap());
    st
}
