//! Independent reader / writer of the cover_crypt wire formats.
//!
//! Written from the pinned format (LEB128 counts, fixed-size scalars / points / ML-KEM blobs),
//! not generated from the crate's code: it shares nothing with `/repo`. It gives the monitors eyes
//! on private state (chains, flags, ids, flavours) and is the surface for structure-aware
//! tampering.

pub const SCALAR: usize = 32;
#[cfg(feature = "cfg-a")]
pub const POINT: usize = 32;
#[cfg(feature = "cfg-a")]
pub const EK: usize = 800;
#[cfg(feature = "cfg-a")]
pub const DK: usize = 1632;
#[cfg(feature = "cfg-a")]
pub const CT: usize = 768;
#[cfg(feature = "cfg-a")]
pub const CONFIG: &str = "A(curve25519+mlkem512)";

#[cfg(feature = "cfg-b")]
pub const POINT: usize = 33;
#[cfg(feature = "cfg-b")]
pub const EK: usize = 1184;
#[cfg(feature = "cfg-b")]
pub const DK: usize = 2400;
#[cfg(feature = "cfg-b")]
pub const CT: usize = 1088;
#[cfg(feature = "cfg-b")]
pub const CONFIG: &str = "B(p256+mlkem768)";

pub const TAG: usize = 16;
pub const SEED: usize = 32;
pub const SIGNING_KEY: usize = 16;
pub const SIGNATURE: usize = 32;

pub type R<T> = Result<T, String>;

/// A located LEB128 field (count, length or flag) inside a serialized object.
#[derive(Clone, Debug)]
pub struct Field {
    pub off: usize,
    pub len: usize,
    pub kind: &'static str,
    pub value: u64,
}

pub struct Cur<'a> {
    pub b: &'a [u8],
    pub pos: usize,
    pub fields: Vec<Field>,
}

impl<'a> Cur<'a> {
    pub fn new(b: &'a [u8]) -> Self {
        Self {
            b,
            pos: 0,
            fields: vec![],
        }
    }
    pub fn remaining(&self) -> usize {
        self.b.len() - self.pos
    }
    pub fn leb(&mut self, kind: &'static str) -> R<u64> {
        let start = self.pos;
        let mut result: u64 = 0;
        let mut shift = 0u32;
        loop {
            let byte = *self
                .b
                .get(self.pos)
                .ok_or_else(|| format!("eof in leb128 at {start}"))?;
            self.pos += 1;
            if shift >= 64 || (shift == 63 && (byte & 0x7f) > 1) {
                return Err(format!("leb128 overflow at {start}"));
            }
            result |= ((byte & 0x7f) as u64) << shift;
            if byte & 0x80 == 0 {
                break;
            }
            shift += 7;
        }
        self.fields.push(Field {
            off: start,
            len: self.pos - start,
            kind,
            value: result,
        });
        Ok(result)
    }
    pub fn take(&mut self, n: usize) -> R<Vec<u8>> {
        if self.remaining() < n {
            return Err(format!(
                "eof: want {n} bytes at {} have {}",
                self.pos,
                self.remaining()
            ));
        }
        let v = self.b[self.pos..self.pos + n].to_vec();
        self.pos += n;
        Ok(v)
    }
    pub fn vec(&mut self, kind: &'static str) -> R<Vec<u8>> {
        let n = self.leb(kind)?;
        if n > self.remaining() as u64 {
            return Err(format!("vec length {n} exceeds remaining {}", self.remaining()));
        }
        self.take(n as usize)
    }
    pub fn count(&mut self, kind: &'static str, min_item: usize) -> R<usize> {
        let n = self.leb(kind)?;
        if min_item > 0 && n > (self.remaining() / min_item) as u64 {
            return Err(format!(
                "count {n} ({kind}) cannot fit in remaining {}",
                self.remaining()
            ));
        }
        Ok(n as usize)
    }
    pub fn end(&self) -> R<()> {
        if self.remaining() == 0 {
            Ok(())
        } else {
            Err(format!("{} trailing bytes", self.remaining()))
        }
    }
}

pub fn leb_encode(mut v: u64, out: &mut Vec<u8>) {
    loop {
        let mut byte = (v & 0x7f) as u8;
        v >>= 7;
        if v != 0 {
            byte |= 0x80;
        }
        out.push(byte);
        if v == 0 {
            break;
        }
    }
}

pub fn leb_len(v: u64) -> usize {
    let mut o = vec![];
    leb_encode(v, &mut o);
    o.len()
}

fn put_vec(v: &[u8], out: &mut Vec<u8>) {
    leb_encode(v.len() as u64, out);
    out.extend_from_slice(v);
}

// ---------------------------------------------------------------------------------------------
// Access structure
// ---------------------------------------------------------------------------------------------

#[derive(Clone, Debug, PartialEq, Eq, PartialOrd, Ord)]
pub struct WAttr {
    pub name: Vec<u8>,
    pub id: u64,
    pub hint: u64,
    pub status: u64,
}

#[derive(Clone, Debug, PartialEq, Eq, PartialOrd, Ord)]
pub struct WDim {
    pub name: Vec<u8>,
    pub ordered: u64,
    pub attrs: Vec<WAttr>,
}

#[derive(Clone, Debug, PartialEq, Eq)]
pub struct WStruct {
    pub version: u64,
    pub dims: Vec<WDim>,
    /// Next attribute id (format version 1 = "V2" only).
    pub next_id: Option<u64>,
    /// Anything after that (nothing in the known versions), kept raw.
    pub tail: Vec<u8>,
}

impl WStruct {
    /// Reads a structure that is the last component of its container (takes everything left).
    pub fn read(c: &mut Cur) -> R<Self> {
        let version = c.leb("struct.version")?;
        let n = c.count("struct.n_dims", 3)?;
        let mut dims = Vec::new();
        for _ in 0..n {
            let name = c.vec("dim.name_len")?;
            let ordered = c.leb("dim.ordered")?;
            if ordered > 1 {
                return Err(format!("bad ordered flag {ordered}"));
            }
            let na = c.count("dim.n_attrs", 4)?;
            let mut attrs = Vec::new();
            for _ in 0..na {
                let aname = c.vec("attr.name_len")?;
                let id = c.leb("attr.id")?;
                let hint = c.leb("attr.hint")?;
                let status = c.leb("attr.status")?;
                if hint > 1 || status > 1 {
                    return Err("bad attr flag".into());
                }
                attrs.push(WAttr {
                    name: aname,
                    id,
                    hint,
                    status,
                });
            }
            dims.push(WDim {
                name,
                ordered,
                attrs,
            });
        }
        let next_id = if version >= 1 {
            Some(c.leb("struct.next_id")?)
        } else {
            None
        };
        let tail = c.take(c.remaining())?;
        Ok(Self {
            version,
            dims,
            next_id,
            tail,
        })
    }

    pub fn parse(b: &[u8]) -> R<Self> {
        let mut c = Cur::new(b);
        let s = Self::read(&mut c)?;
        c.end()?;
        Ok(s)
    }

    pub fn write(&self, out: &mut Vec<u8>) {
        leb_encode(self.version, out);
        leb_encode(self.dims.len() as u64, out);
        for d in &self.dims {
            put_vec(&d.name, out);
            leb_encode(d.ordered, out);
            leb_encode(d.attrs.len() as u64, out);
            for a in &d.attrs {
                put_vec(&a.name, out);
                leb_encode(a.id, out);
                leb_encode(a.hint, out);
                leb_encode(a.status, out);
            }
        }
        if let Some(n) = self.next_id {
            leb_encode(n, out);
        }
        out.extend_from_slice(&self.tail);
    }

    /// Canonical form: dimensions sorted by name, unordered dimensions' attributes sorted by name.
    pub fn canonical(&self) -> Self {
        let mut s = self.clone();
        for d in &mut s.dims {
            if d.ordered == 0 {
                d.attrs.sort();
            }
        }
        s.dims.sort();
        s
    }

    pub fn attr_id(&self, dim: &str, name: &str) -> Option<u64> {
        self.dims
            .iter()
            .find(|d| d.name == dim.as_bytes())
            .and_then(|d| d.attrs.iter().find(|a| a.name == name.as_bytes()))
            .map(|a| a.id)
    }
}

// ---------------------------------------------------------------------------------------------
// Right secret / public keys
// ---------------------------------------------------------------------------------------------

#[derive(Clone, Debug, PartialEq, Eq, PartialOrd, Ord)]
pub struct WSk {
    pub hybrid: bool,
    pub sk: Vec<u8>,
    pub dk: Vec<u8>,
}

impl WSk {
    pub fn read(c: &mut Cur) -> R<Self> {
        let f = c.leb("sk.flavour")?;
        let sk = c.take(SCALAR)?;
        match f {
            0 => Ok(Self {
                hybrid: false,
                sk,
                dk: vec![],
            }),
            1 => Ok(Self {
                hybrid: true,
                sk,
                dk: c.take(DK)?,
            }),
            _ => Err(format!("bad sk flavour {f}")),
        }
    }
    pub fn write(&self, out: &mut Vec<u8>) {
        leb_encode(self.hybrid as u64, out);
        out.extend_from_slice(&self.sk);
        out.extend_from_slice(&self.dk);
    }
    pub fn wire_len(&self) -> usize {
        1 + self.sk.len() + self.dk.len()
    }
}

#[derive(Clone, Debug, PartialEq, Eq, PartialOrd, Ord)]
pub struct WPk {
    pub hybrid: bool,
    pub h: Vec<u8>,
    pub ek: Vec<u8>,
}

impl WPk {
    pub fn read(c: &mut Cur) -> R<Self> {
        let f = c.leb("pk.flavour")?;
        let h = c.take(POINT)?;
        match f {
            0 => Ok(Self {
                hybrid: false,
                h,
                ek: vec![],
            }),
            1 => Ok(Self {
                hybrid: true,
                h,
                ek: c.take(EK)?,
            }),
            _ => Err(format!("bad pk flavour {f}")),
        }
    }
    pub fn write(&self, out: &mut Vec<u8>) {
        leb_encode(self.hybrid as u64, out);
        out.extend_from_slice(&self.h);
        out.extend_from_slice(&self.ek);
    }
}

// ---------------------------------------------------------------------------------------------
// USK
// ---------------------------------------------------------------------------------------------

#[derive(Clone, Debug, PartialEq, Eq)]
pub struct WUsk {
    pub id: Vec<Vec<u8>>,
    pub ps: Vec<Vec<u8>>,
    pub chains: Vec<(Vec<u8>, Vec<WSk>)>,
    pub sig: Option<Vec<u8>>,
}

impl WUsk {
    pub fn parse(b: &[u8]) -> R<Self> {
        Self::parse_fields(b).map(|x| x.0)
    }
    pub fn parse_fields(b: &[u8]) -> R<(Self, Vec<Field>)> {
        let mut c = Cur::new(b);
        let n = c.count("usk.n_markers", SCALAR)?;
        let mut id = vec![];
        for _ in 0..n {
            id.push(c.take(SCALAR)?);
        }
        let n = c.count("usk.n_ps", POINT)?;
        let mut ps = vec![];
        for _ in 0..n {
            ps.push(c.take(POINT)?);
        }
        let n = c.count("usk.n_chains", 2)?;
        let mut chains = vec![];
        for _ in 0..n {
            let r = c.vec("right.len")?;
            let k = c.count("usk.chain_len", 1 + SCALAR)?;
            let mut ch = vec![];
            for _ in 0..k {
                ch.push(WSk::read(&mut c)?);
            }
            chains.push((r, ch));
        }
        let sig = if c.remaining() < SIGNATURE {
            None
        } else {
            Some(c.take(SIGNATURE)?)
        };
        c.end()?;
        Ok((
            Self {
                id,
                ps,
                chains,
                sig,
            },
            c.fields,
        ))
    }
    pub fn write(&self) -> Vec<u8> {
        let mut o = vec![];
        leb_encode(self.id.len() as u64, &mut o);
        for m in &self.id {
            o.extend_from_slice(m);
        }
        leb_encode(self.ps.len() as u64, &mut o);
        for p in &self.ps {
            o.extend_from_slice(p);
        }
        leb_encode(self.chains.len() as u64, &mut o);
        for (r, ch) in &self.chains {
            put_vec(r, &mut o);
            leb_encode(ch.len() as u64, &mut o);
            for s in ch {
                s.write(&mut o);
            }
        }
        if let Some(s) = &self.sig {
            o.extend_from_slice(s);
        }
        o
    }
    pub fn chain(&self, right: &[u8]) -> Option<&Vec<WSk>> {
        self.chains.iter().find(|(r, _)| r == right).map(|x| &x.1)
    }
}

// ---------------------------------------------------------------------------------------------
// MSK
// ---------------------------------------------------------------------------------------------

#[derive(Clone, Debug, PartialEq, Eq)]
pub struct WMsk {
    pub s: Vec<u8>,
    pub tracers: Vec<(Vec<u8>, Vec<u8>)>,
    pub users: Vec<Vec<Vec<u8>>>,
    pub chains: Vec<(Vec<u8>, Vec<(u64, WSk)>)>,
    pub signing_key: Option<Vec<u8>>,
    pub structure: WStruct,
}

impl WMsk {
    pub fn parse(b: &[u8]) -> R<Self> {
        Self::parse_fields(b).map(|x| x.0)
    }
    pub fn parse_fields(b: &[u8]) -> R<(Self, Vec<Field>)> {
        let mut c = Cur::new(b);
        let s = c.take(SCALAR)?;
        let n = c.count("msk.n_tracers", SCALAR + POINT)?;
        let mut tracers = vec![];
        for _ in 0..n {
            let sk = c.take(SCALAR)?;
            let pk = c.take(POINT)?;
            tracers.push((sk, pk));
        }
        let n = c.count("msk.n_users", 1)?;
        let mut users = vec![];
        for _ in 0..n {
            let k = c.count("msk.user_len", SCALAR)?;
            let mut id = vec![];
            for _ in 0..k {
                id.push(c.take(SCALAR)?);
            }
            users.push(id);
        }
        let n = c.count("msk.n_chains", 2)?;
        let mut chains = vec![];
        for _ in 0..n {
            let r = c.vec("right.len")?;
            let k = c.count("msk.chain_len", 2 + SCALAR)?;
            let mut ch = vec![];
            for _ in 0..k {
                let flag = c.leb("msk.activation")?;
                ch.push((flag, WSk::read(&mut c)?));
            }
            chains.push((r, ch));
        }
        let signing_key = if c.remaining() < SIGNING_KEY {
            None
        } else {
            Some(c.take(SIGNING_KEY)?)
        };
        let structure = WStruct::read(&mut c)?;
        c.end()?;
        Ok((
            Self {
                s,
                tracers,
                users,
                chains,
                signing_key,
                structure,
            },
            c.fields,
        ))
    }
    pub fn write(&self) -> Vec<u8> {
        let mut o = vec![];
        o.extend_from_slice(&self.s);
        leb_encode(self.tracers.len() as u64, &mut o);
        for (sk, pk) in &self.tracers {
            o.extend_from_slice(sk);
            o.extend_from_slice(pk);
        }
        leb_encode(self.users.len() as u64, &mut o);
        for id in &self.users {
            leb_encode(id.len() as u64, &mut o);
            for m in id {
                o.extend_from_slice(m);
            }
        }
        leb_encode(self.chains.len() as u64, &mut o);
        for (r, ch) in &self.chains {
            put_vec(r, &mut o);
            leb_encode(ch.len() as u64, &mut o);
            for (f, s) in ch {
                leb_encode(*f, &mut o);
                s.write(&mut o);
            }
        }
        if let Some(k) = &self.signing_key {
            o.extend_from_slice(k);
        }
        self.structure.write(&mut o);
        o
    }
    /// Order-independent form (hash-map iteration order makes bytes unstable across calls).
    pub fn canonical(&self) -> Self {
        let mut m = self.clone();
        m.users.sort();
        m.chains.sort();
        m.structure = m.structure.canonical();
        m
    }
    pub fn chain(&self, right: &[u8]) -> Option<&Vec<(u64, WSk)>> {
        self.chains.iter().find(|(r, _)| r == right).map(|x| &x.1)
    }
}

// ---------------------------------------------------------------------------------------------
// MPK
// ---------------------------------------------------------------------------------------------

#[derive(Clone, Debug, PartialEq, Eq)]
pub struct WMpk {
    pub tpk: Vec<Vec<u8>>,
    pub keys: Vec<(Vec<u8>, WPk)>,
    pub structure: WStruct,
}

impl WMpk {
    pub fn parse(b: &[u8]) -> R<Self> {
        Self::parse_fields(b).map(|x| x.0)
    }
    pub fn parse_fields(b: &[u8]) -> R<(Self, Vec<Field>)> {
        let mut c = Cur::new(b);
        let n = c.count("mpk.n_tpk", POINT)?;
        let mut tpk = vec![];
        for _ in 0..n {
            tpk.push(c.take(POINT)?);
        }
        let n = c.count("mpk.n_keys", 2 + POINT)?;
        let mut keys = vec![];
        for _ in 0..n {
            let r = c.vec("right.len")?;
            keys.push((r, WPk::read(&mut c)?));
        }
        let structure = WStruct::read(&mut c)?;
        c.end()?;
        Ok((
            Self {
                tpk,
                keys,
                structure,
            },
            c.fields,
        ))
    }
    pub fn write(&self) -> Vec<u8> {
        let mut o = vec![];
        leb_encode(self.tpk.len() as u64, &mut o);
        for p in &self.tpk {
            o.extend_from_slice(p);
        }
        leb_encode(self.keys.len() as u64, &mut o);
        for (r, k) in &self.keys {
            put_vec(r, &mut o);
            k.write(&mut o);
        }
        self.structure.write(&mut o);
        o
    }
    pub fn canonical(&self) -> Self {
        let mut m = self.clone();
        m.keys.sort();
        m.structure = m.structure.canonical();
        m
    }
    pub fn key(&self, right: &[u8]) -> Option<&WPk> {
        self.keys.iter().find(|(r, _)| r == right).map(|x| &x.1)
    }
}

// ---------------------------------------------------------------------------------------------
// XEnc, headers
// ---------------------------------------------------------------------------------------------

#[derive(Clone, Debug, PartialEq, Eq)]
pub struct WXenc {
    pub tag: Vec<u8>,
    pub traps: Vec<Vec<u8>>,
    pub hybrid: bool,
    /// (ML-KEM ciphertext (empty when classic), F)
    pub encs: Vec<(Vec<u8>, Vec<u8>)>,
}

impl WXenc {
    pub fn read(c: &mut Cur) -> R<Self> {
        let tag = c.take(TAG)?;
        let n = c.count("xenc.n_traps", POINT)?;
        let mut traps = vec![];
        for _ in 0..n {
            traps.push(c.take(POINT)?);
        }
        let f = c.leb("xenc.flavour")?;
        if f > 1 {
            return Err(format!("bad xenc flavour {f}"));
        }
        let hybrid = f == 1;
        let n = c.count("xenc.n_encs", if hybrid { CT + SEED } else { SEED })?;
        let mut encs = vec![];
        for _ in 0..n {
            let e = if hybrid { c.take(CT)? } else { vec![] };
            let ff = c.take(SEED)?;
            encs.push((e, ff));
        }
        Ok(Self {
            tag,
            traps,
            hybrid,
            encs,
        })
    }
    pub fn parse(b: &[u8]) -> R<Self> {
        Self::parse_fields(b).map(|x| x.0)
    }
    pub fn parse_fields(b: &[u8]) -> R<(Self, Vec<Field>)> {
        let mut c = Cur::new(b);
        let x = Self::read(&mut c)?;
        c.end()?;
        Ok((x, c.fields))
    }
    pub fn write_into(&self, o: &mut Vec<u8>) {
        o.extend_from_slice(&self.tag);
        leb_encode(self.traps.len() as u64, o);
        for t in &self.traps {
            o.extend_from_slice(t);
        }
        leb_encode(self.hybrid as u64, o);
        leb_encode(self.encs.len() as u64, o);
        for (e, f) in &self.encs {
            o.extend_from_slice(e);
            o.extend_from_slice(f);
        }
    }
    pub fn write(&self) -> Vec<u8> {
        let mut o = vec![];
        self.write_into(&mut o);
        o
    }
}

#[derive(Clone, Debug, PartialEq, Eq)]
pub struct WHeader {
    pub enc: WXenc,
    pub meta: Vec<u8>,
}

impl WHeader {
    pub fn parse(b: &[u8]) -> R<Self> {
        Self::parse_fields(b).map(|x| x.0)
    }
    pub fn parse_fields(b: &[u8]) -> R<(Self, Vec<Field>)> {
        let mut c = Cur::new(b);
        let enc = WXenc::read(&mut c)?;
        let meta = c.vec("header.meta_len")?;
        c.end()?;
        Ok((Self { enc, meta }, c.fields))
    }
    pub fn write(&self) -> Vec<u8> {
        let mut o = vec![];
        self.enc.write_into(&mut o);
        put_vec(&self.meta, &mut o);
        o
    }
}

#[derive(Clone, Debug, PartialEq, Eq)]
pub struct WCleartext {
    pub secret: Vec<u8>,
    pub meta: Vec<u8>,
}

impl WCleartext {
    pub fn parse_fields(b: &[u8]) -> R<(Self, Vec<Field>)> {
        let mut c = Cur::new(b);
        let secret = c.take(SEED)?;
        let meta = c.vec("cleartext.meta_len")?;
        c.end()?;
        Ok((Self { secret, meta }, c.fields))
    }
    pub fn write(&self) -> Vec<u8> {
        let mut o = self.secret.clone();
        put_vec(&self.meta, &mut o);
        o
    }
}

/// Encodes a right from attribute ids the way the format does (sorted LEB128 ids).
pub fn right_bytes(ids: &[u64]) -> Vec<u8> {
    let mut ids = ids.to_vec();
    ids.sort_unstable();
    let mut o = vec![];
    for i in ids {
        leb_encode(i, &mut o);
    }
    o
}

pub fn hex(b: &[u8]) -> String {
    let mut s = String::with_capacity(b.len() * 2);
    for x in b {
        s.push_str(&format!("{x:02x}"));
    }
    s
}

pub fn unhex(s: &str) -> R<Vec<u8>> {
    if s.len() % 2 != 0 {
        return Err("odd hex".into());
    }
    (0..s.len() / 2)
        .map(|i| u8::from_str_radix(&s[2 * i..2 * i + 2], 16).map_err(|e| e.to_string()))
        .collect()
}
