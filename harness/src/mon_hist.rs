//! History-based monitors (C01–C06, C09, C10a, C11, C13, C18): per-property workload mixes on the
//! lock-step engine, sharded over threads.

use std::{
    sync::{
        atomic::{AtomicU64, Ordering},
        Arc, Mutex,
    },
    time::{Duration, Instant},
};

use serde_json::json;

use crate::{
    engine::{run_history, Profile, Weights, World},
    report::Stats,
    rng::fnv,
    wire,
};

pub fn profile(prop: &str, thorough: bool) -> Option<Profile> {
    let z = Weights::zero();
    let base = Profile {
        prop: "C00",
        name: "base",
        max_dims: 3,
        max_attrs: 3,
        ops: (25, 45),
        w: z.clone(),
        invalid_pct: 0,
        shadow_refresh: false,
        unicode_names: false,
        omega_targets: false,
        max_usks: 6,
        max_encs: 8,
        random_hints: false,
        edited_initial_structure: false,
        id_churn: false,
    };
    let deeper = |mut p: Profile| -> Profile {
        // thorough tier: longer histories, one more dimension for the static table
        if thorough {
            p.ops = (p.ops.0 + p.ops.0 / 2, p.ops.1 * 2);
            if p.name == "static-cover" {
                p.max_dims = 4;
                p.max_attrs = 6;
            }
        }
        p
    };
    Some(deeper(match prop {
        // static structure, many policies, the full key × right table
        "C01" | "C02" => Profile {
            prop: if prop == "C01" { "C01" } else { "C02" },
            name: "static-cover",
            max_dims: 3,
            max_attrs: 5,
            ops: (14, 22),
            w: Weights { keygen: 10, encaps: 12, matrix: 1, ..z },
            omega_targets: true,
            max_usks: 8,
            max_encs: 400,
            random_hints: true,
            edited_initial_structure: true,
            ..base
        },
        "C03" => Profile {
            prop: "C03",
            name: "structure-edits",
            ops: (30, 60),
            w: Weights {
                add_dim: 2, del_dim: 1, add_attr: 8, del_attr: 6, rename: 4, disable: 1, update: 9,
                keygen: 7, refresh: 4, encaps: 9, matrix: 5, ..z
            },
            shadow_refresh: true,
            invalid_pct: 15,
            id_churn: true,
            ..base
        },
        "C04" => Profile {
            prop: "C04",
            name: "rotation",
            ops: (30, 55),
            w: Weights { rekey: 9, prune: 2, keygen: 5, refresh: 8, encaps: 9, roundtrip: 3, matrix: 4, ..z },
            max_attrs: 3,
            ..base
        },
        "C05" => Profile {
            prop: "C05",
            name: "revocation",
            ops: (30, 55),
            w: Weights { rekey: 8, prune: 6, add_attr: 2, add_dim: 1, del_attr: 3, del_dim: 1, rename: 2, disable: 2, update: 3, keygen: 5, refresh: 8, encaps: 8, matrix: 4, ..z },
            shadow_refresh: true,
            invalid_pct: 15,
            ..base
        },
        "C06" => Profile {
            prop: "C06",
            name: "disable",
            ops: (25, 45),
            w: Weights {
                disable: 5, add_attr: 3, add_dim: 1, rename: 2, update: 6, rekey: 6, prune: 3, keygen: 4, refresh: 5, encaps: 10,
                roundtrip: 4, derive_mpk: 4, matrix: 3, ..z
            },
            omega_targets: true,
            max_encs: 12,
            ..base
        },
        "C09" => Profile {
            prop: "C09",
            name: "contract",
            ops: (40, 70),
            w: Weights {
                add_dim: 2, del_dim: 1, add_attr: 6, del_attr: 4, rename: 3, disable: 3, update: 7, rekey: 5,
                prune: 3, keygen: 6, refresh: 7, encaps: 8, recaps: 2, roundtrip: 1, derive_mpk: 1, forged: 2, matrix: 2,
            },
            invalid_pct: 25,
            shadow_refresh: true,
            ..base
        },
        "C10" => Profile {
            prop: "C10",
            name: "failed-calls",
            ops: (40, 70),
            w: Weights {
                add_dim: 2, del_dim: 1, add_attr: 7, del_attr: 4, rename: 3, disable: 4, update: 8, rekey: 6,
                prune: 3, keygen: 6, refresh: 6, encaps: 3, forged: 3, matrix: 1, ..z
            },
            invalid_pct: 40,
            ..base
        },
        "C11" => Profile {
            prop: "C11",
            name: "hybridization",
            ops: (20, 35),
            w: Weights { add_attr: 2, del_attr: 3, disable: 3, update: 5, rekey: 6, prune: 1, keygen: 5, refresh: 6, encaps: 12, roundtrip: 4, recaps: 5, matrix: 2, ..z },
            random_hints: true,
            omega_targets: true,
            max_encs: 10,
            ..base
        },
        "C13" => Profile {
            prop: "C13",
            name: "roundtrip-injection",
            ops: (35, 60),
            w: Weights {
                add_dim: 2, del_dim: 1, add_attr: 4, del_attr: 4, rename: 2, disable: 2, update: 6, rekey: 5,
                prune: 3, keygen: 5, refresh: 6, encaps: 7, recaps: 1, roundtrip: 14, derive_mpk: 1, matrix: 4, ..z
            },
            random_hints: true,
            unicode_names: true,
            ..base
        },
        "C18" => Profile {
            prop: "C18",
            name: "recaps",
            ops: (30, 50),
            w: Weights {
                disable: 3, del_attr: 2, update: 5, rekey: 7, prune: 4, keygen: 4, refresh: 6, encaps: 9, recaps: 9,
                matrix: 4, ..z
            },
            shadow_refresh: true,
            random_hints: true,
            ..base
        },
        _ => return None,
    }))
}

/// Second workload of C01/C02: the cover relation on keys and encapsulations produced *after*
/// lifecycle operations (rekey, prune, disable, update, refresh): a freshly generated key must get
/// the current secrets, whatever the history of the master key.
pub fn lifecycle_profile(prop: &str, thorough: bool) -> Option<Profile> {
    let mut p = profile("C04", thorough)?;
    p.prop = match prop {
        "C01" => "C01",
        "C02" => "C02",
        _ => return None,
    };
    p.name = "lifecycle-cover";
    p.w = Weights {
        rekey: 6, prune: 3, disable: 2, update: 4, keygen: 9, refresh: 5, encaps: 11, roundtrip: 2, matrix: 5,
        ..Weights::zero()
    };
    p.random_hints = true;
    p.max_usks = 8;
    p.max_encs = 10;
    Some(p)
}

/// Is this history non-trivial for the property, and what is its shape?
fn shape_of(prop: &str, w: &World) -> Option<u64> {
    let f = &w.flags;
    let kinds: String = w.log.iter().map(|l| l.split('(').next().unwrap_or("")).collect::<Vec<_>>().join(",");
    let nontrivial = match prop {
        "C01" | "C02" if w.p.name == "lifecycle-cover" => w.log.iter().any(|l| l.starts_with("rekey")) && w.log.iter().any(|l| l.starts_with("keygen")),
        "C01" | "C02" => return None, // shapes are recorded per (key, encapsulation) pair by the engine
        "C03" => (f.add_after_delete || f.add_after_rename) && f.enc_on_new_attr_old_key,
        "C04" => f.unequal_chains_at_decaps,
        "C05" => f.anchor_pruned_refresh,
        "C06" => f.mpk_ops_after_disable >= 2,
        "C09" | "C10" => return None, // counted per (operation, outcome class)
        "C11" => f.mixed_flavour_enc || (f.hybrid_enc && f.classic_enc),
        "C13" => f.roundtrips >= 2,
        "C18" => f.recaps_ok >= 1 && (f.recaps_partial || f.recaps_err >= 1),
        _ => false,
    };
    if nontrivial {
        Some(fnv(format!("{}|{}|{}", w.p.name, w.struct_shape, kinds).as_bytes()))
    } else {
        None
    }
}

pub struct RunCfg {
    pub profile_name: Option<String>,
    pub thorough: bool,
    pub prop: String,
    pub seed: u64,
    pub max_histories: u64,
    pub budget: Duration,
    pub threads: usize,
}

pub fn run(cfg: &RunCfg) -> Stats {
    let chosen = match cfg.profile_name.as_deref() {
        Some("lifecycle") => lifecycle_profile(&cfg.prop, cfg.thorough),
        _ => profile(&cfg.prop, cfg.thorough),
    };
    let Some(profile) = chosen else {
        let mut s = Stats::default();
        s.inconclusive.push(format!("no profile for {}", cfg.prop));
        return s;
    };
    let next = Arc::new(AtomicU64::new(0));
    let total = Arc::new(Mutex::new(Stats::default()));
    let start = Instant::now();
    let mut handles = vec![];
    for _ in 0..cfg.threads {
        let next = next.clone();
        let total = total.clone();
        let profile = profile.clone();
        let prop = cfg.prop.clone();
        let seed = cfg.seed;
        let max = cfg.max_histories;
        let budget = cfg.budget;
        handles.push(std::thread::spawn(move || {
            let mut local = Stats::default();
            loop {
                let i = next.fetch_add(1, Ordering::SeqCst);
                if i >= max || start.elapsed() > budget {
                    break;
                }
                let hseed = seed.wrapping_mul(0x9E37_79B9_7F4A_7C15).wrapping_add(i.wrapping_mul(0xD1B5_4A32_D192_ED03)) ^ fnv(prop.as_bytes());
                let Some(mut w) = run_history(&profile, hseed, wire::CONFIG) else {
                    local.inconclusive.push("setup failed".into());
                    continue;
                };
                local.bump("histories");
                local.add("ops", w.log.len() as u64);
                if w.stopped {
                    local.bump("histories_stopped_at_divergence");
                }
                if let Some(h) = shape_of(&prop, &w) {
                    local.shapes.insert(h);
                    local.bump("nontrivial_histories");
                }
                if prop == "C09" || prop == "C10" {
                    let synced = w.mskm.st.omega().len() == w.mskm.secrets.len();
                    for c in &w.flags.err_classes {
                        local.shapes.insert(fnv(format!("{c}|{synced}").as_bytes()));
                    }
                }
                // findings: own property → reported; others → counted as foreign
                let findings = std::mem::take(&mut w.stats.findings);
                for f in findings {
                    if f.prop == prop {
                        local.findings.push(f);
                    } else {
                        *local.foreign.entry(f.signature.clone()).or_insert(0) += 1;
                        local
                            .foreign_detail
                            .entry(f.signature.clone())
                            .or_insert_with(|| format!("{} || replay: {}", f.detail, f.replay));
                    }
                }
                if local.samples.len() < 2 && !w.log.is_empty() {
                    let tail: Vec<&String> = w.log.iter().skip(w.log.len().saturating_sub(30)).collect();
                    local.samples.push(json!({
                        "profile": profile.name,
                        "seed": hseed,
                        "structure": w.struct_shape,
                        "ops": w.log.len(),
                        "last_ops": tail,
                        "decaps_evaluated": w.stats.get("decaps_evaluated"),
                        "must_open_ok": w.stats.get("must_open_ok"),
                        "must_not_open_ok": w.stats.get("must_not_open_ok"),
                    }));
                }
                local.merge(std::mem::take(&mut w.stats));
            }
            total.lock().unwrap().merge(local);
        }));
    }
    for h in handles {
        if h.join().is_err() {
            total.lock().unwrap().inconclusive.push("worker thread died".into());
        }
    }
    let mut s = std::mem::take(&mut *total.lock().unwrap());
    if cfg.prop == "C05" && cfg.profile_name.is_none() {
        verbatim_names(&mut s);
    }
    s
}

/// Deletion acts on exactly the attribute that was named. Names that differ only by surrounding
/// white space are different names for every structure-editing call (only the policy *parser*
/// trims): deleting `" FIN"` next to `"FIN"` must revoke the former and leave the latter alone.
/// Policies are built as objects here (`AccessPolicy::Term`), since no string denotes a padded name.
fn verbatim_names(st: &mut Stats) {
    use crate::real::*;
    use crate::report::Finding;
    use crate::wire::WMsk;
    let mut fail = |st: &mut Stats, sig: &str, detail: String| {
        st.findings.push(Finding { prop: "C05".into(), signature: format!("C05:verbatim-names:{sig}"), detail, replay: json!({"monitor": "hist", "scenario": "verbatim-names"}) });
    };
    for (twin, padded) in [("FIN", " FIN"), ("FIN", "FIN "), ("FIN", "FIN\t"), ("a b", " a b"), ("X", "\tX ")] {
        let cc = Covercrypt::default();
        let Out::Ok((mut msk, _)) = call(|| cc.setup()) else { return };
        let q = |n: &str| QualifiedAttribute::new("D", n);
        let _ = msk.access_structure.add_anarchy("D".into());
        for (n, h) in [(twin, false), (padded, true), ("Other", false)] {
            if msk.access_structure.add_attribute(q(n), hint(h), None).is_err() {
                // a structure that refuses such names has nothing to delete wrongly
                st.bump("verbatim_names_refused_at_creation");
                return;
            }
        }
        let Out::Ok(mpk) = call(|| cc.update_msk(&mut msk)) else { return };
        let term = |n: &str| AccessPolicy::Term(q(n));
        let (Out::Ok(mut usk_p), Out::Ok(mut usk_t)) = (call(|| cc.generate_user_secret_key(&mut msk, &term(padded))), call(|| cc.generate_user_secret_key(&mut msk, &term(twin)))) else { return };
        let (Out::Ok((_, e_p)), Out::Ok((s_t, e_t))) = (call(|| cc.encaps(&mpk, &term(padded))), call(|| cc.encaps(&mpk, &term(twin)))) else { return };
        if !call(|| msk.access_structure.del_attribute(&q(padded))).is_ok() {
            st.bump("verbatim_names_delete_refused");
            continue;
        }
        if !call(|| cc.update_msk(&mut msk)).is_ok() {
            continue;
        }
        st.bump("verbatim_name_deletions");
        st.shapes.insert(fnv(format!("verbatim|{padded:?}").as_bytes()));
        let names: Vec<Vec<u8>> = ser(&msk).ok().and_then(|b| WMsk::parse(&b).ok()).map(|w| w.structure.dims.iter().flat_map(|d| d.attrs.iter().map(|a| a.name.clone())).collect()).unwrap_or_default();
        let has = |n: &str| names.iter().any(|x| x == n.as_bytes());
        if has(padded) || !has(twin) {
            fail(st, "wrong-attribute-deleted", format!("after deleting D::{padded:?} the structure holds {:?}", names.iter().map(|n| String::from_utf8_lossy(n).to_string()).collect::<Vec<_>>()));
            continue;
        }
        for keep in [true, false] {
            let _ = call(|| cc.refresh_usk(&mut msk, &mut usk_p, keep));
            let _ = call(|| cc.refresh_usk(&mut msk, &mut usk_t, keep));
            st.add("decaps_evaluated", 2);
            if let Out::Ok(Some(_)) = call(|| cc.decaps(&usk_p, &e_p)) {
                fail(st, "refreshed-key-opens-deleted-attribute", format!("key for the deleted D::{padded:?}, refreshed (keep={keep}), still opens an encapsulation for it"));
                break;
            }
            match call(|| cc.decaps(&usk_t, &e_t)) {
                Out::Ok(Some(k)) if secret_bytes(&k) == secret_bytes(&s_t) => {}
                o => {
                    fail(st, "refreshed-key-lost-untouched-attribute", format!("key for D::{twin:?} (not deleted), refreshed (keep={keep}): {}", match o { Out::Ok(None) => "None".to_string(), Out::Ok(Some(_)) => "another secret".to_string(), x => x.describe() }));
                    break;
                }
            }
        }
    }
}
