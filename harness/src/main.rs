use std::time::Duration;

use ccmon::{mon_hist, real, report::Stats, wire};

#[global_allocator]
static GLOBAL: ccmon::alloc::Counting = ccmon::alloc::Counting;

fn arg(args: &[String], name: &str) -> Option<String> {
    args.iter().position(|a| a == name).and_then(|i| args.get(i + 1).cloned())
}

fn num(args: &[String], name: &str, default: u64) -> u64 {
    arg(args, name).and_then(|v| v.parse().ok()).unwrap_or(default)
}

fn finish(prop: &str, stats: Stats, out: Option<String>, wall: f64) {
    let mut v = stats.to_json(prop, wire::CONFIG);
    v["wall_s"] = serde_json::json!(wall);
    let text = serde_json::to_string_pretty(&v).unwrap();
    match out {
        Some(p) => std::fs::write(p, text).expect("cannot write output"),
        None => println!("{text}"),
    }
}

fn main() {
    let args: Vec<String> = std::env::args().collect();
    if args.len() < 2 {
        eprintln!("usage: ccmon <monitor> <property> [--seed N] [--max N] [--budget-s N] [--threads N] [--out FILE]");
        std::process::exit(2);
    }
    real::install_panic_hook();
    let start = std::time::Instant::now();
    let out = arg(&args, "--out");
    let seed = num(&args, "--seed", 1);
    let threads = num(&args, "--threads", 16) as usize;
    let tier = arg(&args, "--tier").unwrap_or_else(|| "quick".to_string());
    match args[1].as_str() {
        "hist" if arg(&args, "--replay").is_some() => {
            // replay of one recorded history: (profile, seed) determine it
            let prop = args[2].clone();
            let r: serde_json::Value = arg(&args, "--replay").and_then(|p| std::fs::read_to_string(p).ok()).and_then(|t| serde_json::from_str(&t).ok()).unwrap_or_default();
            let mut stats = Stats::default();
            let same_config = r["config"].as_str().map_or(true, |c| c == wire::CONFIG);
            match (r["seed"].as_u64(), mon_hist::profile(&prop, tier == "thorough"), same_config) {
                (Some(hseed), Some(profile), true) => {
                    // up to 8 attempts: a defect that depends on hash-map order may need several
                    for _ in 0..8 {
                        if let Some(mut w) = ccmon::engine::run_history(&profile, hseed, wire::CONFIG) {
                            stats.bump("histories");
                            let f = std::mem::take(&mut w.stats.findings);
                            let hit = f.iter().any(|x| x.prop == prop);
                            stats.findings.extend(f.into_iter().filter(|x| x.prop == prop));
                            stats.merge(std::mem::take(&mut w.stats));
                            if hit {
                                break;
                            }
                        }
                    }
                    stats.shapes.insert(1);
                    stats.shapes.insert(2);
                }
                (_, _, false) => {
                    // recorded under the other configuration: nothing to do in this build
                    stats.shapes.insert(1);
                    stats.shapes.insert(2);
                    stats.bump("decaps_evaluated");
                }
                _ => stats.inconclusive.push("replay file has no seed / unknown profile".into()),
            }
            finish(&prop, stats, out, start.elapsed().as_secs_f64());
        }
        "hist" => {
            let prop = args[2].clone();
            let cfg = mon_hist::RunCfg {
                profile_name: arg(&args, "--profile"),
                thorough: tier == "thorough",
                prop: prop.clone(),
                seed,
                max_histories: num(&args, "--max", 200),
                budget: Duration::from_secs(num(&args, "--budget-s", 30)),
                threads,
            };
            let stats = mon_hist::run(&cfg);
            finish(&prop, stats, out, start.elapsed().as_secs_f64());
        }
        "c15" => {
            let replay = arg(&args, "--replay").and_then(|p| std::fs::read_to_string(p).ok()).and_then(|t| serde_json::from_str(&t).ok());
            let stats = ccmon::mon_c15::run(&tier, seed, threads, replay);
            finish("C15", stats, out, start.elapsed().as_secs_f64());
        }
        "c16" => {
            let stats = ccmon::mon_c16::run(&tier, seed, threads);
            finish("C16", stats, out, start.elapsed().as_secs_f64());
        }
        "c17" => {
            let stats = ccmon::mon_c17::run(&tier, seed, threads);
            finish("C17", stats, out, start.elapsed().as_secs_f64());
        }
        "c07" => {
            let stats = ccmon::mon_c07::run(&tier, seed, threads);
            finish("C07", stats, out, start.elapsed().as_secs_f64());
        }
        "c08" => {
            let stats = ccmon::mon_c08::run(&tier, seed);
            finish("C08", stats, out, start.elapsed().as_secs_f64());
        }
        "c14" => {
            let replay = arg(&args, "--replay").and_then(|p| std::fs::read_to_string(p).ok()).and_then(|t| serde_json::from_str(&t).ok());
            let scratch = std::path::PathBuf::from(arg(&args, "--scratch").unwrap_or_else(|| format!("/verif/.build/out/c14-{tier}-{}", &wire::CONFIG[..1])));
            let _ = std::fs::remove_dir_all(&scratch);
            let stats = ccmon::mon_c14::run(&tier, seed, threads, &scratch, replay);
            let _ = std::fs::remove_dir_all(&scratch);
            finish("C14", stats, out, start.elapsed().as_secs_f64());
        }
        "c14-sample" => {
            let stats = ccmon::mon_c14::sample(seed, num(&args, "--stride", 10));
            finish("C14", stats, out, start.elapsed().as_secs_f64());
        }
        "c14-worker" => {
            ccmon::mon_c14::worker(
                &arg(&args, "--bases").unwrap(),
                num(&args, "--shard", 0) as usize,
                num(&args, "--nshards", 1) as usize,
                num(&args, "--from", 0),
                seed,
                tier == "thorough",
                &arg(&args, "--progress").unwrap(),
                &arg(&args, "--out").unwrap(),
            );
        }
        "c10fp" => {
            let stats = ccmon::mon_c10fp::run(&tier, seed);
            finish("C10", stats, out, start.elapsed().as_secs_f64());
        }
        "c19" => {
            let stats = ccmon::mon_c19::run(&tier, seed, num(&args, "--budget-s", 0), out.as_deref());
            finish("C19", stats, out, start.elapsed().as_secs_f64());
        }
        "golden-gen" => {
            ccmon::golden::gen(&args[2]);
        }
        "golden" => {
            let path = arg(&args, "--golden").unwrap_or_else(|| format!("/verif/golden/{}/golden.json", &wire::CONFIG[..1]));
            let stats = ccmon::golden::check(&path);
            finish("C13", stats, out, start.elapsed().as_secs_f64());
        }
        "bigids" => {
            let prop = args[2].clone();
            let stats = ccmon::mon_bigids::run(&prop, &tier);
            finish(&prop, stats, out, start.elapsed().as_secs_f64());
        }
        "c12" => {
            let stats = ccmon::mon_c12::run(&tier, seed);
            finish("C12", stats, out, start.elapsed().as_secs_f64());
        }
        other => {
            eprintln!("unknown monitor {other}");
            std::process::exit(2);
        }
    }
}
