//! C15 — the policy parser is total and logically faithful.
//!
//! (a) totality: every string over a small alphabet (grammar metacharacters, space, '*', three
//!     multi-byte characters) up to a length bound, plus random longer strings, is parsed inside
//!     `catch_unwind`; every policy that comes out is checked for internal consistency (its DNF is
//!     equivalent to its own tree under every assignment, its attribute names occur in the source).
//! (b) faithfulness: random boolean formulas (≤ 8 leaves, names with inner spaces and multi-byte
//!     characters) are printed with random spacing and redundant parentheses, parsed, and compared
//!     with the source formula under every truth assignment (tree and DNF), names compared exactly.

use std::{
    collections::BTreeSet,
    sync::{Arc, Mutex},
};

use serde_json::json;

use crate::{
    model::Pol,
    real::{self, AccessPolicy, Out},
    report::{Finding, Stats},
    rng::{fnv, Rng},
};

const ALPHABET: &[&str] = &["A", ":", "&", "|", "(", ")", " ", "*", "é", "日", "😀"];
/// Characters whose code point ends in the byte of a metacharacter (0x26 & 0x28 ( 0x29 ) 0x7C | 0x3A : 0x20 0x2A *).
const LOOKALIKE: &[&str] = &["ż", "Ц", "Ш", "Щ", "Ħ", "…", "ĺ", "Ġ", "Ī", "℺"];

fn terms(p: &AccessPolicy, out: &mut BTreeSet<(String, String)>) {
    match p {
        AccessPolicy::Broadcast => {}
        AccessPolicy::Term(q) => {
            out.insert((q.dimension.clone(), q.name.clone()));
        }
        AccessPolicy::Conjunction(a, b) | AccessPolicy::Disjunction(a, b) => {
            terms(a, out);
            terms(b, out);
        }
    }
}

fn eval(p: &AccessPolicy, truth: &dyn Fn(&str, &str) -> bool) -> bool {
    match p {
        AccessPolicy::Broadcast => true,
        AccessPolicy::Term(q) => truth(&q.dimension, &q.name),
        AccessPolicy::Conjunction(a, b) => eval(a, truth) && eval(b, truth),
        AccessPolicy::Disjunction(a, b) => eval(a, truth) || eval(b, truth),
    }
}

/// Checks `to_dnf` against the tree under every assignment (≤ 2^10 assignments).
fn dnf_consistent(p: &AccessPolicy) -> Result<(), String> {
    let mut ts = BTreeSet::new();
    terms(p, &mut ts);
    let ts: Vec<(String, String)> = ts.into_iter().collect();
    if ts.len() > 10 {
        return Ok(());
    }
    let dnf = match real::call_inf(|| p.to_dnf()) {
        Out::Ok(d) => d,
        o => return Err(format!("to_dnf {}", o.describe())),
    };
    for mask in 0u32..(1 << ts.len()) {
        let truth = |d: &str, a: &str| -> bool {
            ts.iter().position(|(td, ta)| td == d && ta == a).map_or(false, |i| mask & (1 << i) != 0)
        };
        let tree = eval(p, &truth);
        let flat = dnf.iter().any(|c| c.iter().all(|q| truth(&q.dimension, &q.name)));
        if tree != flat {
            return Err(format!("DNF {dnf:?} differs from the tree under assignment {mask:b} over {ts:?}"));
        }
    }
    Ok(())
}

fn check_string(s: &str, st: &mut Stats, origin: &str) {
    st.bump("strings_parsed");
    match real::parse(s) {
        Out::Panic(m) => {
            let class = if s.is_ascii() { "ascii" } else { "multibyte" };
            st.findings.push(Finding {
                prop: "C15".into(),
                signature: format!("C15:parse-panics:{class}"),
                detail: format!("parse({s:?}) panicked: {m}"),
                replay: json!({"monitor": "c15", "kind": "string", "string": s, "origin": origin}),
            });
        }
        Out::Err(_) => st.bump("strings_rejected"),
        Out::Ok(p) => {
            st.bump("strings_accepted");
            if let Err(e) = dnf_consistent(&p) {
                st.findings.push(Finding {
                    prop: "C15".into(),
                    signature: "C15:dnf-not-equivalent-to-tree".into(),
                    detail: format!("parse({s:?}) = {p:?}: {e}"),
                    replay: json!({"monitor": "c15", "kind": "string", "string": s}),
                });
            }
            let mut ts = BTreeSet::new();
            terms(&p, &mut ts);
            for (d, a) in ts {
                if !s.contains(&d) || !s.contains(&a) || d.trim() != d || a.trim() != a {
                    st.findings.push(Finding {
                        prop: "C15".into(),
                        signature: "C15:attribute-name-not-from-source".into(),
                        detail: format!("parse({s:?}) contains attribute {d:?}::{a:?} which is not a trimmed substring of the source"),
                        replay: json!({"monitor": "c15", "kind": "string", "string": s}),
                    });
                }
            }
        }
    }
}

/// Enumerates all strings of exactly `len` symbols whose first symbol index ≡ shard (mod shards).
fn enumerate(len: usize, shard: usize, shards: usize, st: &mut Stats) {
    if len == 0 {
        if shard == 0 {
            check_string("", st, "enum");
        }
        return;
    }
    let n = ALPHABET.len();
    let total = n.pow(len as u32);
    let mut idx = vec![0usize; len];
    let mut s = String::with_capacity(len * 4);
    for code in 0..total {
        if code % shards != shard {
            continue;
        }
        let mut c = code;
        for slot in idx.iter_mut() {
            *slot = c % n;
            c /= n;
        }
        s.clear();
        for i in &idx {
            s.push_str(ALPHABET[*i]);
        }
        check_string(&s, st, "enum");
    }
}

const NAME_POOL: &[&str] = &["A", "B", "Low Sec", "é", "日本", "T op", "x", "Dép t", "😀", "N1", "a-b", "ß", "Duży", "Цех", "Ħal…", "aШb", "Щ"];
const NAME_POOL_ASCII: &[&str] = &["A", "B", "Low Sec", "e", "JP", "T op", "x", "Dep t", "S", "N1", "a-b", "ss"];

fn random_formula(rng: &mut Rng, budget: &mut usize, depth: usize, pool: &[&str], n_names: usize) -> Pol {
    if *budget <= 1 || depth >= 4 || rng.chance(1, 4) {
        *budget = budget.saturating_sub(1);
        if depth > 0 && rng.chance(1, 10) {
            return Pol::All;
        }
        let d = pool[rng.below(n_names.min(pool.len()))];
        let a = pool[rng.below(n_names.min(pool.len()))];
        return Pol::attr(d, a);
    }
    let k = rng.range(2, 3);
    let mut v = vec![];
    for _ in 0..k {
        v.push(random_formula(rng, budget, depth + 1, pool, n_names));
    }
    if rng.chance(1, 2) {
        Pol::And(v)
    } else {
        Pol::Or(v)
    }
}

fn pol_terms(p: &Pol, out: &mut BTreeSet<(String, String)>) {
    match p {
        Pol::All => {}
        Pol::Attr(d, a) => {
            out.insert((d.clone(), a.clone()));
        }
        Pol::And(v) | Pol::Or(v) => v.iter().for_each(|x| pol_terms(x, out)),
    }
}

/// Does the formula reduce to '*' in a way the documented simplification drops attributes
/// (`x || *` = `*`, `x && *` = `x`)? Names are then legitimately absent from the parsed tree.
fn faithful_case(rng: &mut Rng, st: &mut Stats, ascii: bool) {
    let pool = if ascii { NAME_POOL_ASCII } else { NAME_POOL };
    let mut budget = rng.range(1, 8);
    let n_names = rng.range(2, 5);
    // a few names drawn from the whole pool
    let mut sub: Vec<&str> = pool.to_vec();
    rng.shuffle(&mut sub);
    sub.truncate(n_names);
    let f = random_formula(rng, &mut budget, 0, &sub, n_names);
    let text = f.print(rng);
    let class = if ascii { "ascii" } else { "multibyte" };
    check_formula(&f, &text, st, class);
}

/// Every character U+hhll (a few pages hh, every ll) as part of dimension and attribute names: a
/// name character must never be taken for a metacharacter, whatever its encoding looks like.
fn character_sweep(st: &mut Stats) {
    for hi in [0x00u32, 0x01, 0x04, 0x20, 0x21, 0x30, 0x65, 0xFF, 0x1F6] {
        for lo in 0..=255u32 {
            let Some(c) = char::from_u32((hi << 8) | lo) else { continue };
            if c.is_whitespace() || c.is_control() || "()|&:*".contains(c) {
                continue;
            }
            let d = format!("D{c}");
            let a = format!("a{c}b");
            let f = Pol::And(vec![Pol::attr(&d, &a), Pol::Or(vec![Pol::attr("E", "x"), Pol::attr(&format!("{c}F"), &format!("{c}"))])]);
            let text = format!("{d}::{a} && (E::x || {c}F::{c})");
            check_formula(&f, &text, st, "character-sweep");
            st.bump("characters_swept");
        }
    }
}

fn check_formula(f: &Pol, text: &str, st: &mut Stats, class: &str) {
    let f = f.clone();
    let text = text.to_string();
    st.bump("formulas");
    let replay = json!({"monitor": "c15", "kind": "formula", "text": text, "formula": format!("{f:?}")});
    let parsed = match real::parse(&text) {
        Out::Ok(p) => p,
        o => {
            st.findings.push(Finding {
                prop: "C15".into(),
                signature: format!("C15:grammar-string-rejected:{}:{class}", if o.is_panic() { "panic" } else { "error" }),
                detail: format!("formula {f:?} printed as {text:?}: {}", o.describe()),
                replay,
            });
            return;
        }
    };
    let mut ts = BTreeSet::new();
    pol_terms(&f, &mut ts);
    let ts: Vec<(String, String)> = ts.into_iter().collect();
    let dnf = match real::call_inf(|| parsed.to_dnf()) {
        Out::Ok(d) => d,
        o => {
            st.findings.push(Finding {
                prop: "C15".into(),
                signature: "C15:to_dnf-panics".into(),
                detail: format!("{text:?}: {}", o.describe()),
                replay,
            });
            return;
        }
    };
    for mask in 0u32..(1 << ts.len()) {
        let truth = |d: &str, a: &str| -> bool {
            ts.iter().position(|(td, ta)| td == d && ta == a).map_or(false, |i| mask & (1 << i) != 0)
        };
        let want = f.eval(&truth);
        let tree = eval(&parsed, &truth);
        let flat = dnf.iter().any(|c| c.iter().all(|q| truth(&q.dimension, &q.name)));
        st.bump("assignments_evaluated");
        if tree != want {
            st.findings.push(Finding {
                prop: "C15".into(),
                signature: format!("C15:parsed-policy-not-equivalent:{class}"),
                detail: format!("{text:?} parsed as {parsed:?}; source formula {f:?} evaluates to {want} but the parsed policy to {tree} under {mask:b} over {ts:?}"),
                replay,
            });
            return;
        }
        if flat != want {
            st.findings.push(Finding {
                prop: "C15".into(),
                signature: format!("C15:dnf-not-equivalent:{class}"),
                detail: format!("{text:?}: DNF {dnf:?} evaluates to {flat}, formula to {want} under {mask:b} over {ts:?}"),
                replay,
            });
            return;
        }
    }
    // names: every attribute of the parsed policy is one of the source, exactly
    let mut got = BTreeSet::new();
    terms(&parsed, &mut got);
    for t in &got {
        if !ts.contains(t) {
            st.findings.push(Finding {
                prop: "C15".into(),
                signature: format!("C15:attribute-name-altered:{class}"),
                detail: format!("{text:?}: parsed attribute {t:?} is not an attribute of the source {ts:?}"),
                replay,
            });
            return;
        }
    }
    let has_and = matches!(&f, Pol::And(v) if v.len() > 1) || text.contains("&&");
    let has_or = text.contains("||");
    if has_and && has_or {
        st.shapes.insert(fnv(format!("{}|{class}", f.shape()).as_bytes()));
    }
    if st.samples.len() < 3 {
        st.samples.push(json!({"formula": format!("{f:?}"), "printed": text, "parsed_dnf_conjunctions": dnf.len()}));
    }
}

/// Long flat chains (2..300 operands): sizes the bounded enumeration cannot reach. OR chains, AND
/// chains and OR-of-AND chains; the parsed policy and its DNF are compared with the source on
/// sampled assignments (all-false, all-true, each single attribute true, 64 random ones).
fn long_chains(st: &mut Stats, rng: &mut Rng) {
    let sizes: Vec<usize> = (2..40).step_by(3).chain([63, 64, 65, 100, 127, 128, 129, 130, 131, 160, 200, 255, 256, 257, 300]).collect();
    for n in sizes {
        for kind in 0..3 {
            let attrs: Vec<(String, String)> = (0..n).map(|i| (format!("D{}", i % 7), format!("a{i}"))).collect();
            let (f, text) = match kind {
                0 => (Pol::Or(attrs.iter().map(|(d, a)| Pol::attr(d, a)).collect()), attrs.iter().map(|(d, a)| format!("{d}::{a}")).collect::<Vec<_>>().join(" || ")),
                1 => (Pol::And(attrs.iter().map(|(d, a)| Pol::attr(d, a)).collect()), attrs.iter().map(|(d, a)| format!("{d}::{a}")).collect::<Vec<_>>().join(" && ")),
                _ => {
                    let pairs: Vec<Pol> = attrs.chunks(2).map(|c| Pol::And(c.iter().map(|(d, a)| Pol::attr(d, a)).collect())).collect();
                    let text = attrs.chunks(2).map(|c| c.iter().map(|(d, a)| format!("{d}::{a}")).collect::<Vec<_>>().join(" && ")).collect::<Vec<_>>().join(" || ");
                    (Pol::Or(pairs), text)
                }
            };
            st.bump("long_chains");
            let kname = ["or", "and", "or-of-and"][kind];
            let replay = json!({"monitor": "c15", "kind": "chain", "operands": n, "operator": kname});
            let parsed = match real::parse(&text) {
                Out::Ok(p) => p,
                o => {
                    st.findings.push(Finding {
                        prop: "C15".into(),
                        signature: format!("C15:grammar-string-rejected:long-chain:{}", if o.is_panic() { "panic" } else { "error" }),
                        detail: format!("a flat {kname} chain of {n} attributes: {}", o.describe()),
                        replay,
                    });
                    continue;
                }
            };
            let dnf = match real::call_inf(|| parsed.to_dnf()) {
                Out::Ok(d) => d,
                o => {
                    st.findings.push(Finding { prop: "C15".into(), signature: "C15:to_dnf-panics".into(), detail: format!("{kname} chain of {n}: {}", o.describe()), replay });
                    continue;
                }
            };
            let expected_clauses = match kind { 0 => n, 1 => 1, _ => (n + 1) / 2 };
            if dnf.len() != expected_clauses {
                st.findings.push(Finding {
                    prop: "C15".into(),
                    signature: "C15:dnf-not-equivalent:long-chain".into(),
                    detail: format!("{kname} chain of {n}: {} DNF clauses, expected {expected_clauses}", dnf.len()),
                    replay,
                });
                continue;
            }
            let mut assignments: Vec<Vec<bool>> = vec![vec![false; n], vec![true; n]];
            for i in 0..n {
                let mut v = vec![false; n];
                v[i] = true;
                assignments.push(v);
                let mut v = vec![true; n];
                v[i] = false;
                assignments.push(v);
            }
            for _ in 0..64 {
                assignments.push((0..n).map(|_| rng.chance(1, 2)).collect());
            }
            for asg in assignments {
                let truth = |d: &str, a: &str| -> bool { attrs.iter().position(|(x, y)| x == d && y == a).map_or(false, |i| asg[i]) };
                let want = f.eval(&truth);
                let tree = eval(&parsed, &truth);
                let flat = dnf.iter().any(|c| c.iter().all(|q| truth(&q.dimension, &q.name)));
                st.bump("assignments_evaluated");
                if tree != want || flat != want {
                    st.findings.push(Finding {
                        prop: "C15".into(),
                        signature: format!("C15:{}:long-chain", if tree != want { "parsed-policy-not-equivalent" } else { "dnf-not-equivalent" }),
                        detail: format!("{kname} chain of {n}: formula {want}, parsed {tree}, DNF {flat}"),
                        replay: replay.clone(),
                    });
                    break;
                }
            }
            st.shapes.insert(fnv(format!("chain|{kname}|{n}").as_bytes()));
        }
    }
}

pub fn run(tier: &str, seed: u64, threads: usize, replay: Option<serde_json::Value>) -> Stats {
    if let Some(r) = replay {
        let mut st = Stats::default();
        if let Some(s) = r.get("string").and_then(|s| s.as_str()) {
            check_string(s, &mut st, "replay");
        }
        if let Some(s) = r.get("text").and_then(|s| s.as_str()) {
            check_string(s, &mut st, "replay");
            st.inconclusive.clear();
        }
        st.shapes.insert(1);
        st.shapes.insert(2);
        return st;
    }
    let max_len = if tier == "thorough" { 7 } else { 6 };
    let n_random = if tier == "thorough" { 2_000_000 } else { 200_000 };
    let n_formulas = if tier == "thorough" { 1_500_000 } else { 150_000 };
    let total = Arc::new(Mutex::new(Stats::default()));
    let mut hs = vec![];
    for t in 0..threads {
        let total = total.clone();
        hs.push(std::thread::spawn(move || {
            let mut st = Stats::default();
            for len in 0..=max_len {
                enumerate(len, t, threads, &mut st);
            }
            let mut rng = Rng::new(seed ^ (t as u64).wrapping_mul(0x9E37_79B9));
            for _ in 0..n_random / threads {
                let l = rng.range(8, 48);
                let mut s = String::new();
                for _ in 0..l {
                    // biased towards structure: names, separators, operators
                    match rng.below(10) {
                        0 => s.push_str("::"),
                        1 => s.push_str("&&"),
                        2 => s.push_str("||"),
                        _ => s.push_str(ALPHABET[rng.below(ALPHABET.len())]),
                    }
                }
                check_string(&s, &mut st, "random");
            }
            for i in 0..n_formulas / threads {
                faithful_case(&mut rng, &mut st, i % 2 == 0);
            }
            if t == 0 {
                long_chains(&mut st, &mut rng);
            }
            if t == 1 % threads {
                character_sweep(&mut st);
            }
            // random strings also draw from the look-alike characters
            for _ in 0..(n_random / threads) / 4 {
                let l = rng.range(4, 24);
                let mut s = String::new();
                for _ in 0..l {
                    match rng.below(8) {
                        0 => s.push_str("::"),
                        1 => s.push_str("&&"),
                        2 => s.push_str("||"),
                        3 => s.push_str(ALPHABET[rng.below(ALPHABET.len())]),
                        _ => s.push_str(LOOKALIKE[rng.below(LOOKALIKE.len())]),
                    }
                }
                check_string(&s, &mut st, "random-lookalike");
            }
            // findings can be numerous on a broken tree: keep the first of each signature
            let mut seen = BTreeSet::new();
            st.findings.retain(|f| seen.insert(f.signature.clone()));
            total.lock().unwrap().merge(st);
        }));
    }
    for h in hs {
        let _ = h.join();
    }
    let mut st = std::mem::take(&mut *total.lock().unwrap());
    st.add("enumerated_max_length", max_len as u64);
    st
}
