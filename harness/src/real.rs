//! Thin layer over the real API: panic capture, policy parsing, (de)serialization helpers.

use std::{
    cell::RefCell,
    panic::{catch_unwind, AssertUnwindSafe},
};

pub use cosmian_cover_crypt::{
    api::Covercrypt, traits::KemAc, traits::PkeAc, AccessPolicy, AccessStructure, CleartextHeader,
    EncryptedHeader, EncryptionHint, Error, MasterPublicKey, MasterSecretKey, QualifiedAttribute,
    UserSecretKey, XEnc,
};
pub use cosmian_crypto_core::{bytes_ser_de::Serializable, Secret};

thread_local! {
    static LAST_PANIC: RefCell<String> = const { RefCell::new(String::new()) };
}

/// Installs a silent panic hook that remembers the message (per thread).
pub fn install_panic_hook() {
    std::panic::set_hook(Box::new(|info| {
        let msg = if let Some(s) = info.payload().downcast_ref::<&str>() {
            s.to_string()
        } else if let Some(s) = info.payload().downcast_ref::<String>() {
            s.clone()
        } else {
            "<non-string panic>".to_string()
        };
        let loc = info
            .location()
            .map(|l| format!("{}:{}", l.file(), l.line()))
            .unwrap_or_default();
        LAST_PANIC.with(|p| *p.borrow_mut() = format!("{msg} @ {loc}"));
    }));
}

#[derive(Debug)]
pub enum Out<T> {
    Ok(T),
    Err(String),
    Panic(String),
}

impl<T> Out<T> {
    pub fn is_ok(&self) -> bool {
        matches!(self, Out::Ok(_))
    }
    pub fn is_panic(&self) -> bool {
        matches!(self, Out::Panic(_))
    }
    pub fn describe(&self) -> String {
        match self {
            Out::Ok(_) => "Ok".into(),
            Out::Err(e) => format!("Err({})", trunc(e, 160)),
            Out::Panic(e) => format!("PANIC({})", trunc(e, 200)),
        }
    }
    pub fn ok(self) -> Option<T> {
        match self {
            Out::Ok(t) => Some(t),
            _ => None,
        }
    }
}

pub fn trunc(s: &str, n: usize) -> String {
    if s.chars().count() <= n {
        s.to_string()
    } else {
        let t: String = s.chars().take(n).collect();
        format!("{t}…")
    }
}

/// Runs a fallible call of the real code, capturing panics.
pub fn call<T, E: std::fmt::Display>(f: impl FnOnce() -> Result<T, E>) -> Out<T> {
    match catch_unwind(AssertUnwindSafe(f)) {
        Ok(Ok(t)) => Out::Ok(t),
        Ok(Err(e)) => Out::Err(e.to_string()),
        Err(_) => Out::Panic(LAST_PANIC.with(|p| p.borrow().clone())),
    }
}

/// Runs an infallible call of the real code, capturing panics.
pub fn call_inf<T>(f: impl FnOnce() -> T) -> Out<T> {
    match catch_unwind(AssertUnwindSafe(f)) {
        Ok(t) => Out::Ok(t),
        Err(_) => Out::Panic(LAST_PANIC.with(|p| p.borrow().clone())),
    }
}

pub fn parse(text: &str) -> Out<AccessPolicy> {
    call(|| AccessPolicy::parse(text))
}

pub fn ser<T: Serializable>(x: &T) -> Out<Vec<u8>>
where
    T::Error: std::fmt::Display,
{
    call(|| x.serialize().map(|z| z.to_vec()))
}

pub fn de<T: Serializable>(b: &[u8]) -> Out<T>
where
    T::Error: std::fmt::Display,
{
    call(|| T::deserialize(b))
}

pub fn secret_bytes(s: &Secret<32>) -> [u8; 32] {
    let mut o = [0u8; 32];
    o.copy_from_slice(&**s);
    o
}

pub fn hint(h: bool) -> EncryptionHint {
    if h {
        EncryptionHint::Hybridized
    } else {
        EncryptionHint::Classic
    }
}
