//! Small deterministic PRNG (xoshiro256** seeded by splitmix64). All workload choices come from it.

#[derive(Clone, Debug)]
pub struct Rng {
    s: [u64; 4],
}

fn splitmix(x: &mut u64) -> u64 {
    *x = x.wrapping_add(0x9E37_79B9_7F4A_7C15);
    let mut z = *x;
    z = (z ^ (z >> 30)).wrapping_mul(0xBF58_476D_1CE4_E5B9);
    z = (z ^ (z >> 27)).wrapping_mul(0x94D0_49BB_1331_11EB);
    z ^ (z >> 31)
}

impl Rng {
    pub fn new(seed: u64) -> Self {
        let mut x = seed;
        let s = [
            splitmix(&mut x),
            splitmix(&mut x),
            splitmix(&mut x),
            splitmix(&mut x),
        ];
        Self { s }
    }

    /// Derives an independent stream.
    pub fn fork(&mut self, salt: u64) -> Self {
        Self::new(self.next() ^ salt.wrapping_mul(0xA24B_AED4_963E_E407))
    }

    #[allow(clippy::should_implement_trait)]
    pub fn next(&mut self) -> u64 {
        let r = self.s[1].wrapping_mul(5).rotate_left(7).wrapping_mul(9);
        let t = self.s[1] << 17;
        self.s[2] ^= self.s[0];
        self.s[3] ^= self.s[1];
        self.s[1] ^= self.s[2];
        self.s[0] ^= self.s[3];
        self.s[2] ^= t;
        self.s[3] = self.s[3].rotate_left(45);
        r
    }

    /// Uniform in 0..n (n > 0).
    pub fn below(&mut self, n: usize) -> usize {
        debug_assert!(n > 0);
        (self.next() % n as u64) as usize
    }

    /// Uniform in lo..=hi.
    pub fn range(&mut self, lo: usize, hi: usize) -> usize {
        lo + self.below(hi - lo + 1)
    }

    pub fn chance(&mut self, num: u32, den: u32) -> bool {
        (self.next() % den as u64) < num as u64
    }

    pub fn pick<'a, T>(&mut self, xs: &'a [T]) -> &'a T {
        &xs[self.below(xs.len())]
    }

    pub fn bytes(&mut self, n: usize) -> Vec<u8> {
        let mut v = Vec::with_capacity(n);
        while v.len() < n {
            let x = self.next().to_le_bytes();
            let k = (n - v.len()).min(8);
            v.extend_from_slice(&x[..k]);
        }
        v
    }

    pub fn shuffle<T>(&mut self, xs: &mut [T]) {
        for i in (1..xs.len()).rev() {
            let j = self.below(i + 1);
            xs.swap(i, j);
        }
    }

    /// Weighted choice: returns the index.
    pub fn weighted(&mut self, ws: &[u32]) -> usize {
        let total: u64 = ws.iter().map(|w| *w as u64).sum();
        debug_assert!(total > 0);
        let mut r = self.next() % total;
        for (i, w) in ws.iter().enumerate() {
            if r < *w as u64 {
                return i;
            }
            r -= *w as u64;
        }
        ws.len() - 1
    }
}

/// FNV-1a 64-bit, used for shape hashes (stable across runs, unlike `DefaultHasher` seeds).
pub fn fnv(bytes: &[u8]) -> u64 {
    let mut h: u64 = 0xcbf2_9ce4_8422_2325;
    for b in bytes {
        h ^= *b as u64;
        h = h.wrapping_mul(0x0000_0100_0000_01B3);
    }
    h
}
