//! Reference model of cover_crypt, written from the documentation (README, CHANGELOG 15.0.0, doc
//! comments). Plain data, deterministic, shares no code with `/repo`.
//!
//! Attribute identity is a *token* minted at creation and never reused; rename keeps it, delete
//! retires it. A right is a set of tokens (at most one per dimension). Every secret has a globally
//! unique version number; an encapsulation targets `(right, version)` pairs; a user key holds
//! versions per right. "Key opens encapsulation" ⇔ the two version sets intersect.

use std::collections::{BTreeMap, BTreeSet};

use crate::rng::Rng;

pub type Tok = u32;
pub type RightT = BTreeSet<Tok>;

#[derive(Clone, Debug, PartialEq, Eq)]
pub enum MErr {
    DimensionNotFound,
    AttributeNotFound,
    Duplicate,
    AfterNotFound,
    /// encryption for a right that has no published key
    NoPublicKey,
    /// rekey / keygen for a right the master key does not hold
    RightNotInMsk,
    BornDisabled,
    Forged,
    UnknownUser,
    /// recaps: nothing recoverable
    NothingToRecover,
}

#[derive(Clone, Debug, PartialEq, Eq)]
pub struct MAttr {
    pub name: String,
    pub tok: Tok,
    pub hybrid: bool,
    pub disabled: bool,
}

#[derive(Clone, Debug, PartialEq, Eq)]
pub struct MDim {
    pub ordered: bool,
    /// lowest rank first for ordered dimensions
    pub attrs: Vec<MAttr>,
}

#[derive(Clone, Debug, Default, PartialEq, Eq)]
pub struct MStruct {
    pub dims: BTreeMap<String, MDim>,
}

impl MStruct {
    pub fn add_dim(&mut self, name: &str, ordered: bool) -> Result<(), MErr> {
        if self.dims.contains_key(name) {
            return Err(MErr::Duplicate);
        }
        self.dims.insert(
            name.to_string(),
            MDim {
                ordered,
                attrs: vec![],
            },
        );
        Ok(())
    }
    pub fn del_dim(&mut self, name: &str) -> Result<Vec<Tok>, MErr> {
        self.dims
            .remove(name)
            .map(|d| d.attrs.iter().map(|a| a.tok).collect())
            .ok_or(MErr::DimensionNotFound)
    }
    pub fn add_attr(
        &mut self,
        dim: &str,
        name: &str,
        hybrid: bool,
        after: Option<&str>,
        tok: Tok,
    ) -> Result<(), MErr> {
        let d = self.dims.get_mut(dim).ok_or(MErr::DimensionNotFound)?;
        if d.attrs.iter().any(|a| a.name == name) {
            return Err(MErr::Duplicate);
        }
        let a = MAttr {
            name: name.to_string(),
            tok,
            hybrid,
            disabled: false,
        };
        if d.ordered {
            let pos = match after {
                None => 0,
                Some(x) => {
                    d.attrs
                        .iter()
                        .position(|a| a.name == x)
                        .ok_or(MErr::AfterNotFound)?
                        + 1
                }
            };
            d.attrs.insert(pos, a);
        } else {
            d.attrs.push(a);
        }
        Ok(())
    }
    pub fn del_attr(&mut self, dim: &str, name: &str) -> Result<Tok, MErr> {
        let d = self.dims.get_mut(dim).ok_or(MErr::DimensionNotFound)?;
        let pos = d
            .attrs
            .iter()
            .position(|a| a.name == name)
            .ok_or(MErr::AttributeNotFound)?;
        Ok(d.attrs.remove(pos).tok)
    }
    pub fn rename(&mut self, dim: &str, old: &str, new: &str) -> Result<(), MErr> {
        let d = self.dims.get_mut(dim).ok_or(MErr::DimensionNotFound)?;
        // Either error is documented; which one comes first is not. The caller only judges Ok/Err.
        if d.attrs.iter().any(|a| a.name == new) {
            return Err(MErr::Duplicate);
        }
        let a = d
            .attrs
            .iter_mut()
            .find(|a| a.name == old)
            .ok_or(MErr::AttributeNotFound)?;
        a.name = new.to_string();
        Ok(())
    }
    pub fn disable(&mut self, dim: &str, name: &str) -> Result<Tok, MErr> {
        let d = self.dims.get_mut(dim).ok_or(MErr::DimensionNotFound)?;
        let a = d
            .attrs
            .iter_mut()
            .find(|a| a.name == name)
            .ok_or(MErr::AttributeNotFound)?;
        a.disabled = true;
        Ok(a.tok)
    }
    pub fn attr(&self, dim: &str, name: &str) -> Result<&MAttr, MErr> {
        let d = self.dims.get(dim).ok_or(MErr::DimensionNotFound)?;
        d.attrs
            .iter()
            .find(|a| a.name == name)
            .ok_or(MErr::AttributeNotFound)
    }
    pub fn attr_by_tok(&self, tok: Tok) -> Option<(&String, &MAttr)> {
        for (dn, d) in &self.dims {
            if let Some(a) = d.attrs.iter().find(|a| a.tok == tok) {
                return Some((dn, a));
            }
        }
        None
    }
    pub fn all_attrs(&self) -> Vec<(String, MAttr)> {
        let mut v = vec![];
        for (dn, d) in &self.dims {
            for a in &d.attrs {
                v.push((dn.clone(), a.clone()));
            }
        }
        v
    }
    pub fn n_attrs(&self) -> usize {
        self.dims.values().map(|d| d.attrs.len()).sum()
    }
    pub fn omega_size(&self) -> usize {
        self.dims.values().map(|d| d.attrs.len() + 1).product()
    }

    /// All rights of the structure with (hybridized, disabled).
    pub fn omega(&self) -> BTreeMap<RightT, (bool, bool)> {
        let mut acc: Vec<(RightT, bool, bool)> = vec![(RightT::new(), false, false)];
        for d in self.dims.values() {
            let mut next = acc.clone();
            for a in &d.attrs {
                for (r, h, dis) in &acc {
                    let mut r2 = r.clone();
                    r2.insert(a.tok);
                    next.push((r2, *h || a.hybrid, *dis || a.disabled));
                }
            }
            acc = next;
        }
        acc.into_iter().map(|(r, h, d)| (r, (h, d))).collect()
    }

    /// Complementary space of one conjunction of a *user* policy.
    pub fn complementary(&self, conj: &[(String, String)]) -> Result<BTreeSet<RightT>, MErr> {
        // named[dim] = allowed tokens
        let mut named: BTreeMap<&str, Vec<Tok>> = BTreeMap::new();
        for (dn, an) in conj {
            let d = self.dims.get(dn).ok_or(MErr::DimensionNotFound)?;
            let pos = d
                .attrs
                .iter()
                .position(|a| &a.name == an)
                .ok_or(MErr::AttributeNotFound)?;
            let allowed: Vec<Tok> = if d.ordered {
                d.attrs[..=pos].iter().map(|a| a.tok).collect()
            } else {
                vec![d.attrs[pos].tok]
            };
            named.insert(dn.as_str(), allowed);
        }
        let mut acc: Vec<RightT> = vec![RightT::new()];
        for (dn, d) in &self.dims {
            let opts: Vec<Tok> = match named.get(dn.as_str()) {
                Some(v) => v.clone(),
                None => d.attrs.iter().map(|a| a.tok).collect(),
            };
            let mut next = acc.clone();
            for t in opts {
                for r in &acc {
                    let mut r2 = r.clone();
                    r2.insert(t);
                    next.push(r2);
                }
            }
            acc = next;
        }
        Ok(acc.into_iter().collect())
    }

    pub fn user_rights(&self, pol: &Pol) -> Result<BTreeSet<RightT>, MErr> {
        let mut out = BTreeSet::new();
        for conj in pol.dnf() {
            out.extend(self.complementary(&conj)?);
        }
        Ok(out)
    }

    /// One right per conjunction of an *encryption* policy. A conjunction naming one dimension
    /// twice yields a right outside Ω (returned as `None`: no key can exist for it).
    pub fn enc_rights(&self, pol: &Pol) -> Result<Vec<Option<RightT>>, MErr> {
        let mut out = vec![];
        for conj in pol.dnf() {
            let mut r = RightT::new();
            let mut dims = BTreeSet::new();
            let mut dup = false;
            for (dn, an) in &conj {
                let a = self.attr(dn, an)?;
                if !dims.insert(dn.clone()) {
                    dup = true;
                }
                r.insert(a.tok);
            }
            out.push(if dup { None } else { Some(r) });
        }
        Ok(out)
    }

    /// Name-level cover relation (C01/C02), decided semantically without rights: does user policy
    /// `u` cover the encryption conjunction `e` (both resolved in this structure)?
    pub fn covers(&self, u: &Pol, e: &[(String, String)]) -> bool {
        // attribute x of the user policy is true iff every attribute of e in dim(x) is <= x (none: true)
        let truth = |dn: &str, an: &str| -> bool {
            let d = match self.dims.get(dn) {
                Some(d) => d,
                None => return false,
            };
            let pu = d.attrs.iter().position(|a| a.name == an);
            e.iter().filter(|(ed, _)| ed == dn).all(|(_, en)| {
                let pe = d.attrs.iter().position(|a| &a.name == en);
                match (pe, pu) {
                    (Some(pe), Some(pu)) => {
                        if d.ordered {
                            pe <= pu
                        } else {
                            pe == pu
                        }
                    }
                    _ => false,
                }
            })
        };
        u.eval(&truth)
    }
}

// ---------------------------------------------------------------------------------------------
// Policies
// ---------------------------------------------------------------------------------------------

#[derive(Clone, Debug, PartialEq, Eq)]
pub enum Pol {
    All,
    Attr(String, String),
    And(Vec<Pol>),
    Or(Vec<Pol>),
}

impl Pol {
    pub fn attr(d: &str, a: &str) -> Self {
        Pol::Attr(d.to_string(), a.to_string())
    }

    pub fn eval(&self, truth: &dyn Fn(&str, &str) -> bool) -> bool {
        match self {
            Pol::All => true,
            Pol::Attr(d, a) => truth(d, a),
            Pol::And(v) => v.iter().all(|p| p.eval(truth)),
            Pol::Or(v) => v.iter().any(|p| p.eval(truth)),
        }
    }

    /// DNF as the documentation describes it: '*' is the neutral element of AND and absorbs OR.
    pub fn dnf(&self) -> Vec<Vec<(String, String)>> {
        match self.dnf_inner() {
            None => vec![vec![]],
            Some(v) => v,
        }
    }

    /// `None` = broadcast.
    fn dnf_inner(&self) -> Option<Vec<Vec<(String, String)>>> {
        match self {
            Pol::All => None,
            Pol::Attr(d, a) => Some(vec![vec![(d.clone(), a.clone())]]),
            Pol::And(v) => {
                let mut acc: Option<Vec<Vec<(String, String)>>> = None;
                for p in v {
                    if let Some(rhs) = p.dnf_inner() {
                        acc = Some(match acc {
                            None => rhs,
                            Some(lhs) => {
                                let mut res = vec![];
                                for l in &lhs {
                                    for r in &rhs {
                                        let mut c = l.clone();
                                        c.extend(r.iter().cloned());
                                        res.push(c);
                                    }
                                }
                                res
                            }
                        });
                    }
                }
                acc
            }
            Pol::Or(v) => {
                let mut res = vec![];
                for p in v {
                    match p.dnf_inner() {
                        None => return None,
                        Some(x) => res.extend(x),
                    }
                }
                Some(res)
            }
        }
    }

    pub fn leaves(&self) -> usize {
        match self {
            Pol::All | Pol::Attr(..) => 1,
            Pol::And(v) | Pol::Or(v) => v.iter().map(|p| p.leaves()).sum(),
        }
    }

    /// Abstract shape (operators and arities only), for distinct-shape counting.
    pub fn shape(&self) -> String {
        match self {
            Pol::All => "*".into(),
            Pol::Attr(..) => "a".into(),
            Pol::And(v) => format!("&({})", v.iter().map(|p| p.shape()).collect::<Vec<_>>().join(",")),
            Pol::Or(v) => format!("|({})", v.iter().map(|p| p.shape()).collect::<Vec<_>>().join(",")),
        }
    }

    fn sp(rng: &mut Rng, out: &mut String) {
        for _ in 0..rng.below(3) {
            out.push(' ');
        }
    }

    /// Prints the policy in the documented grammar with random spacing and redundant parentheses.
    pub fn print(&self, rng: &mut Rng) -> String {
        let mut s = String::new();
        self.print_into(rng, &mut s, 0, true, true);
        s
    }

    /// `ctx`: 0 = top / inside parentheses, 1 = operand of OR, 2 = operand of AND.
    /// `tail`: nothing follows this node before the end of its parenthesis level (or of the string).
    fn print_into(&self, rng: &mut Rng, out: &mut String, ctx: u8, top: bool, tail: bool) {
        // 0-2 layers of redundant parentheses, on a quarter of the nodes
        let extra = if !top && rng.chance(1, 4) { rng.range(1, 2) } else { 0 };
        match self {
            Pol::All => {
                if top {
                    Self::sp(rng, out);
                    out.push('*');
                    Self::sp(rng, out);
                } else if tail && rng.chance(1, 2) {
                    // ... or the last operand of its parenthesis level: `A || B && *`
                    Self::sp(rng, out);
                    out.push('*');
                    Self::sp(rng, out);
                } else {
                    // '*' is only recognised when it is the whole (sub)expression
                    for _ in 0..=extra {
                        out.push('(');
                        Self::sp(rng, out);
                    }
                    out.push('*');
                    for _ in 0..=extra {
                        Self::sp(rng, out);
                        out.push(')');
                    }
                }
            }
            Pol::Attr(d, a) => {
                for _ in 0..extra {
                    out.push('(');
                    Self::sp(rng, out);
                }
                Self::sp(rng, out);
                out.push_str(d);
                Self::sp(rng, out);
                out.push_str("::");
                Self::sp(rng, out);
                out.push_str(a);
                Self::sp(rng, out);
                for _ in 0..extra {
                    Self::sp(rng, out);
                    out.push(')');
                }
            }
            Pol::And(v) | Pol::Or(v) => {
                let is_and = matches!(self, Pol::And(_));
                if v.is_empty() {
                    // neutral element of AND; an empty OR is never generated
                    Pol::All.print_into(rng, out, ctx, top, tail);
                    return;
                }
                // parentheses are needed when an OR (of 2+ operands) is an operand of AND
                let need = !is_and && ctx == 2 && v.len() > 1;
                let n_par = extra + usize::from(need);
                for _ in 0..n_par {
                    out.push('(');
                    Self::sp(rng, out);
                }
                let child_ctx = if v.len() == 1 {
                    if n_par > 0 {
                        0
                    } else {
                        ctx
                    }
                } else if is_and {
                    2
                } else {
                    1
                };
                for (i, p) in v.iter().enumerate() {
                    if i > 0 {
                        Self::sp(rng, out);
                        out.push_str(if is_and { "&&" } else { "||" });
                        Self::sp(rng, out);
                    }
                    p.print_into(rng, out, child_ctx, false, i + 1 == v.len() && (n_par > 0 || tail));
                }
                for _ in 0..n_par {
                    Self::sp(rng, out);
                    out.push(')');
                }
            }
        }
    }
}

// ---------------------------------------------------------------------------------------------
// Keys
// ---------------------------------------------------------------------------------------------

#[derive(Clone, Debug, PartialEq, Eq)]
pub struct SecretM {
    pub ver: u64,
    pub activated: bool,
    pub hybrid: bool,
}

#[derive(Clone, Debug, Default)]
pub struct MskM {
    /// the structure as edited (pending edits included)
    pub st: MStruct,
    /// newest first
    pub secrets: BTreeMap<RightT, Vec<SecretM>>,
    pub next_ver: u64,
    pub next_tok: Tok,
}

#[derive(Clone, Debug, Default)]
pub struct MpkM {
    pub st: MStruct,
    /// published rights: newest activated secret
    pub keys: BTreeMap<RightT, (u64, bool)>,
}

#[derive(Clone, Debug, Default)]
pub struct UskM {
    /// per right, newest first: (version, mandatory)
    pub chains: Vec<(RightT, Vec<(u64, bool)>)>,
}

#[derive(Clone, Debug)]
pub struct EncM {
    pub targets: Vec<(RightT, u64)>,
    pub hybrid: bool,
}

#[derive(Clone, Copy, Debug, PartialEq, Eq)]
pub enum Expect {
    MustOpen,
    MustNotOpen,
    DontCare,
}

impl MskM {
    pub fn fresh_tok(&mut self) -> Tok {
        self.next_tok += 1;
        self.next_tok
    }
    fn fresh_ver(&mut self) -> u64 {
        self.next_ver += 1;
        self.next_ver
    }

    /// What `update` must do; `Err` ⇒ nothing changes.
    pub fn update(&mut self) -> Result<(), MErr> {
        let omega = self.st.omega();
        for (r, (_, disabled)) in &omega {
            if !self.secrets.contains_key(r) && *disabled {
                return Err(MErr::BornDisabled);
            }
        }
        self.secrets.retain(|r, _| omega.contains_key(r));
        for (r, (hybrid, disabled)) in omega {
            match self.secrets.get_mut(&r) {
                Some(chain) => {
                    chain[0].activated = !disabled;
                    // hints cannot be changed through the API, so the flavour never changes
                }
                None => {
                    let ver = self.fresh_ver();
                    self.secrets.insert(
                        r,
                        vec![SecretM {
                            ver,
                            activated: true,
                            hybrid,
                        }],
                    );
                }
            }
        }
        Ok(())
    }

    pub fn mpk(&self) -> MpkM {
        MpkM {
            st: self.st.clone(),
            keys: self
                .secrets
                .iter()
                .filter(|(_, c)| c[0].activated)
                .map(|(r, c)| (r.clone(), (c[0].ver, c[0].hybrid)))
                .collect(),
        }
    }

    pub fn rekey(&mut self, pol: &Pol) -> Result<BTreeSet<RightT>, MErr> {
        let rights = self.st.user_rights(pol)?;
        if rights.iter().any(|r| !self.secrets.contains_key(r)) {
            return Err(MErr::RightNotInMsk);
        }
        for r in &rights {
            let ver = self.fresh_ver();
            let chain = self.secrets.get_mut(r).unwrap();
            let (activated, hybrid) = (chain[0].activated, chain[0].hybrid);
            chain.insert(
                0,
                SecretM {
                    ver,
                    activated,
                    hybrid,
                },
            );
        }
        Ok(rights)
    }

    pub fn prune(&mut self, pol: &Pol) -> Result<BTreeSet<RightT>, MErr> {
        let rights = self.st.user_rights(pol)?;
        for r in &rights {
            if let Some(chain) = self.secrets.get_mut(r) {
                chain.truncate(1);
            }
        }
        Ok(rights)
    }

    pub fn keygen(&mut self, pol: &Pol) -> Result<UskM, MErr> {
        let rights = self.st.user_rights(pol)?;
        if rights.iter().any(|r| !self.secrets.contains_key(r)) {
            return Err(MErr::RightNotInMsk);
        }
        Ok(UskM {
            chains: rights
                .into_iter()
                .map(|r| {
                    let v = self.secrets[&r][0].ver;
                    (r, vec![(v, true)])
                })
                .collect(),
        })
    }

    /// Refresh of an issued key.
    pub fn refresh(&self, usk: &UskM, keep: bool) -> UskM {
        let mut chains = vec![];
        for (r, held) in &usk.chains {
            let Some(master) = self.secrets.get(r) else {
                continue; // right no longer in the master key: lost
            };
            if !keep {
                chains.push((r.clone(), vec![(master[0].ver, true)]));
                continue;
            }
            let master_vers: Vec<u64> = master.iter().map(|s| s.ver).collect();
            let kept: Vec<u64> = held
                .iter()
                .map(|(v, _)| *v)
                .filter(|v| master_vers.contains(v))
                .collect();
            let mut chain = vec![];
            match kept.first() {
                None => {
                    // nothing in common any more: the newest is mandatory, the rest is what the
                    // documentation calls "all missing secrets" (not fixed by any property)
                    for (i, v) in master_vers.iter().enumerate() {
                        chain.push((*v, i == 0));
                    }
                }
                Some(anchor) => {
                    for (i, v) in master_vers.iter().enumerate() {
                        if v == anchor {
                            break;
                        }
                        chain.push((*v, i == 0));
                    }
                    // what the key could open before and the master key still has is mandatory
                    // only if it was usable before (held entries keep their own flag, except that
                    // the newest of the master chain is always mandatory)
                    for v in &kept {
                        let was_mandatory = held.iter().any(|(hv, m)| hv == v && *m);
                        chain.push((*v, was_mandatory || *v == master_vers[0]));
                    }
                }
            }
            chains.push((r.clone(), chain));
        }
        UskM { chains }
    }

    /// Re-encapsulation: targets of the original still held (activated) by the master key and
    /// published by `mpk`, re-targeted at the public key's version.
    pub fn recaps(&self, enc: &EncM, mpk: &MpkM) -> Result<EncM, MErr> {
        let mut targets = vec![];
        let mut opened = false;
        for (r, v) in &enc.targets {
            let Some(chain) = self.secrets.get(r) else {
                continue;
            };
            if !chain.iter().any(|s| s.ver == *v && s.activated) {
                continue;
            }
            opened = true;
            if let Some((pv, _)) = mpk.keys.get(r) {
                if !targets.iter().any(|(tr, _)| tr == r) {
                    targets.push((r.clone(), *pv));
                }
            }
        }
        let _ = opened;
        if targets.is_empty() {
            return Err(MErr::NothingToRecover);
        }
        let hybrid = targets.iter().all(|(r, _)| mpk.keys[r].1);
        Ok(EncM { targets, hybrid })
    }
}

impl MpkM {
    pub fn encaps(&self, pol: &Pol) -> Result<EncM, MErr> {
        let rights = self.st.enc_rights(pol)?;
        let mut targets: Vec<(RightT, u64)> = vec![];
        let mut hybrid = true;
        for r in rights {
            let r = r.ok_or(MErr::NoPublicKey)?;
            let (v, h) = self.keys.get(&r).ok_or(MErr::NoPublicKey)?;
            hybrid &= *h;
            if !targets.iter().any(|(tr, _)| tr == &r) {
                targets.push((r, *v));
            }
        }
        Ok(EncM { targets, hybrid })
    }
}

impl UskM {
    pub fn expect(&self, enc: &EncM) -> Expect {
        let mut any_optional = false;
        for (r, v) in &enc.targets {
            for (ur, chain) in &self.chains {
                if ur == r {
                    for (uv, mandatory) in chain {
                        if uv == v {
                            if *mandatory {
                                return Expect::MustOpen;
                            }
                            any_optional = true;
                        }
                    }
                }
            }
        }
        if any_optional {
            Expect::DontCare
        } else {
            Expect::MustNotOpen
        }
    }
    pub fn n_rights(&self) -> usize {
        self.chains.len()
    }
    pub fn chain_lengths(&self) -> BTreeSet<usize> {
        self.chains.iter().map(|(_, c)| c.len()).collect()
    }
}
