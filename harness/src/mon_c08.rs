//! C08 — only user keys issued by the master key are accepted for refresh (fault enumeration).
//!
//! A fixed, named catalogue of tamper operators is applied through the wire reader/writer to
//! issued keys (1..n rights, 1..3 revisions, classic and hybridized). Every tampered key that
//! deserializes to an object different from every issued key must be refused by `refresh_usk`,
//! and neither the key nor the master key may change.

use serde_json::json;

use crate::{
    arith,
    real::*,
    report::{Finding, Stats},
    rng::{fnv, Rng},
    wire::{self, WMsk, WSk, WUsk},
};

struct Ctx {
    cc: Covercrypt,
    msk: MasterSecretKey,
    msk_bytes: Vec<u8>,
    msk_canon: WMsk,
    issued: Vec<UserSecretKey>,
    older_msk: Vec<u8>,
    other_msk_key: Option<UserSecretKey>,
}

fn build(rng: &mut Rng, shape: usize, pending_edits: bool) -> Option<(Ctx, Vec<(String, UserSecretKey)>)> {
    let cc = Covercrypt::default();
    let (mut msk, _) = call(|| cc.setup()).ok()?;
    {
        let s = &mut msk.access_structure;
        s.add_anarchy("D".into()).ok()?;
        s.add_attribute(QualifiedAttribute::new("D", "A"), hint(false), None).ok()?;
        s.add_attribute(QualifiedAttribute::new("D", "B"), hint(shape % 2 == 1), None).ok()?;
        if shape >= 2 {
            s.add_hierarchy("H".into()).ok()?;
            s.add_attribute(QualifiedAttribute::new("H", "L"), hint(false), None).ok()?;
            s.add_attribute(QualifiedAttribute::new("H", "T"), hint(true), Some("L")).ok()?;
        }
    }
    call(|| cc.update_msk(&mut msk)).ok()?;
    let older_msk = ser(&msk).ok()?;
    let mut keys: Vec<(String, UserSecretKey)> = vec![];
    let pols: &[&str] = if shape >= 2 { &["D::A", "D::B && H::L", "D::A && H::T", "*", "D::A || D::B"] } else { &["D::A", "D::B", "*", "D::A || D::B"] };
    for p in pols {
        let ap = AccessPolicy::parse(p).ok()?;
        keys.push((format!("{p}/rev1"), call(|| cc.generate_user_secret_key(&mut msk, &ap)).ok()?));
    }
    let mut issued: Vec<UserSecretKey> = keys.iter().map(|k| k.1.clone()).collect();
    // several revisions: rekey then refresh(keep) some of the keys
    for round in 0..2 {
        let ap = AccessPolicy::parse(if round == 0 { "D::A" } else { "*" }).ok()?;
        call(|| cc.rekey(&mut msk, &ap)).ok()?;
        let n = keys.len();
        for i in 0..n {
            if rng.chance(1, 2) {
                let mut u = keys[i].1.clone();
                if call(|| cc.refresh_usk(&mut msk, &mut u, true)).is_ok() {
                    issued.push(u.clone());
                    keys.push((format!("{}/rev{}", keys[i].0.split('/').next().unwrap_or(""), round + 2), u));
                }
            }
        }
    }
    // a key issued by another master key over the same structure
    let other = (|| {
        let cc2 = Covercrypt::default();
        let (mut m2, _) = call(|| cc2.setup()).ok()?;
        m2.access_structure = msk.access_structure.clone();
        call(|| cc2.update_msk(&mut m2)).ok()?;
        let ap = AccessPolicy::parse("D::A").ok()?;
        call(|| cc2.generate_user_secret_key(&mut m2, &ap)).ok()
    })();
    if pending_edits {
        // the access structure has been edited and the master key not updated yet: a refused
        // refresh must not take that opportunity to bring the master key up to date either
        let s = &mut msk.access_structure;
        s.add_attribute(QualifiedAttribute::new("D", "Pending"), hint(shape % 2 == 0), None).ok()?;
        if shape >= 2 {
            s.add_attribute(QualifiedAttribute::new("H", "Mid"), hint(false), Some("L")).ok()?;
        }
    }
    let msk_bytes = ser(&msk).ok()?;
    let msk_canon = WMsk::parse(&msk_bytes).ok()?.canonical();
    Some((Ctx { cc, msk, msk_bytes, msk_canon, issued, older_msk, other_msk_key: other }, keys))
}

fn flavour(w: &WUsk) -> &'static str {
    let h = w.chains.iter().any(|c| c.1.iter().any(|s| s.hybrid));
    let c = w.chains.iter().any(|c| c.1.iter().any(|s| !s.hybrid));
    match (h, c) {
        (true, true) => "mixed",
        (true, false) => "hybridized",
        _ => "classic",
    }
}

/// The catalogue. Every entry: (operator name, tampered bytes).
fn catalogue(w: &WUsk, other: &WUsk, rng: &mut Rng) -> Vec<(String, Vec<u8>)> {
    let mut out: Vec<(String, Vec<u8>)> = vec![];
    let n = w.chains.len();
    let mut push = |name: &str, m: &WUsk| out.push((name.to_string(), m.write()));
    for i in 0..n {
        let mut m = w.clone();
        m.chains.remove(i);
        push("remove-chain", &m);
        let mut m = w.clone();
        let c = m.chains[i].clone();
        m.chains.insert(i, c);
        push("duplicate-chain", &m);
        let mut m = w.clone();
        m.chains[i].0.push(0x7f);
        push("rename-right-append-id", &m);
        if !w.chains[i].0.is_empty() {
            let mut m = w.clone();
            m.chains[i].0.pop();
            push("rename-right-drop-id", &m);
            let mut m = w.clone();
            m.chains[i].0[0] ^= 1;
            push("rename-right-change-id", &m);
        }
        let len = w.chains[i].1.len();
        if len >= 2 {
            let mut m = w.clone();
            m.chains[i].1.swap(0, 1);
            push("reorder-secrets-in-chain", &m);
            let mut m = w.clone();
            m.chains[i].1.remove(len - 1);
            push("drop-oldest-secret", &m);
            let mut m = w.clone();
            m.chains[i].1.remove(0);
            push("drop-newest-secret", &m);
        }
        let mut m = w.clone();
        let s = m.chains[i].1[0].clone();
        m.chains[i].1.push(s);
        push("duplicate-secret-in-chain", &m);
        for j in 0..n {
            if i == j {
                continue;
            }
            if i < j {
                let mut m = w.clone();
                m.chains.swap(i, j);
                push("reorder-chains", &m);
                let mut m = w.clone();
                let (a, b) = (m.chains[i].0.clone(), m.chains[j].0.clone());
                m.chains[i].0 = b;
                m.chains[j].0 = a;
                push("swap-right-names", &m);
                let mut m = w.clone();
                let (a, b) = (m.chains[i].1.clone(), m.chains[j].1.clone());
                m.chains[i].1 = b;
                m.chains[j].1 = a;
                push("swap-whole-chains-secrets", &m);
            }
            // move the newest secret of chain i to chain j (front and back)
            if w.chains[i].1.len() >= 2 {
                let mut m = w.clone();
                let s = m.chains[i].1.remove(0);
                m.chains[j].1.insert(0, s);
                push("move-secret-between-chains-front", &m);
            }
            let mut m = w.clone();
            let s = m.chains[i].1[0].clone();
            m.chains[j].1.push(s);
            push("copy-secret-into-other-chain", &m);
        }
        // flavour changes
        for (k, s) in w.chains[i].1.iter().enumerate() {
            let mut m = w.clone();
            if s.hybrid {
                m.chains[i].1[k] = WSk { hybrid: false, sk: s.sk.clone(), dk: vec![] };
                push("flavour-hybridized-to-classic-drop-dk", &m);
                // re-flag one hybridized secret as 1 + DK/32 classic ones (same MAC byte stream)
                if wire::DK % 32 == 0 {
                    let mut m = w.clone();
                    let mut chunks = vec![WSk { hybrid: false, sk: s.sk.clone(), dk: vec![] }];
                    for c in s.dk.chunks(32) {
                        chunks.push(WSk { hybrid: false, sk: c.to_vec(), dk: vec![] });
                    }
                    m.chains[i].1.splice(k..=k, chunks);
                    push("reflag-hybridized-secret-as-classic-run", &m);
                }
            } else {
                m.chains[i].1[k] = WSk { hybrid: true, sk: s.sk.clone(), dk: rng.bytes(wire::DK) };
                push("flavour-classic-to-hybridized-random-dk", &m);
                // borrow a real dk from the same key if there is one
                if let Some(h) = w.chains.iter().flat_map(|c| c.1.iter()).find(|x| x.hybrid) {
                    let mut m = w.clone();
                    m.chains[i].1[k] = WSk { hybrid: true, sk: s.sk.clone(), dk: h.dk.clone() };
                    push("flavour-classic-to-hybridized-borrowed-dk", &m);
                }
            }
        }
    }
    // ---- re-framings of the MAC byte stream (right names are not delimited) -------------------
    for i in 0..n {
        // (a) merge the chain of the empty right into the chain before it
        if i + 1 < n && w.chains[i + 1].0.is_empty() {
            let mut m = w.clone();
            let (_, tail) = m.chains.remove(i + 1);
            m.chains[i].1.extend(tail);
            push("reframe-merge-empty-right-chain-into-previous", &m);
        }
        // split a chain into two adjacent chains carrying the same right name (every split point).
        // For the *empty* right this is byte-identical to operator (b) below, so it is only
        // generated for named rights.
        let named = !w.chains[i].0.is_empty();
        if named {
            for k in 1..w.chains[i].1.len() {
                let mut m = w.clone();
                let tail = m.chains[i].1.split_off(k);
                let name = m.chains[i].0.clone();
                m.chains.insert(i + 1, (name, tail));
                push("split-chain-duplicating-the-right-name", &m);
                // and the two halves swapped
                let mut m2 = m.clone();
                m2.chains.swap(i, i + 1);
                push("split-chain-duplicating-the-right-name-swapped", &m2);
            }
        }
        // one secret per chain, all under the same right name
        if w.chains[i].1.len() >= 3 || (named && w.chains[i].1.len() >= 2) {
            let mut m = w.clone();
            let (name, secrets) = m.chains.remove(i);
            for (q, sk) in secrets.into_iter().enumerate() {
                m.chains.insert(i + q, (name.clone(), vec![sk]));
            }
            push(if named { "explode-chain-into-single-secret-chains" } else { "reframe-explode-empty-right-chain" }, &m);
        }
        // (b) split a chain: its tail becomes the chain of the empty right
        if w.chains[i].1.len() >= 2 {
            let mut m = w.clone();
            let tail = m.chains[i].1.split_off(1);
            m.chains.insert(i + 1, (vec![], tail));
            push("reframe-split-chain-tail-into-empty-right", &m);
        }
        // (c) shift k bytes across the boundary with the next chain (classic secrets only)
        if i + 1 < n && w.chains[i].1.iter().all(|s| !s.hybrid) {
            let next_r = w.chains[i + 1].0.clone();
            for k in 1..=next_r.len().min(3) {
                // forward: right grows by k bytes taken from its first secret; every secret window
                // moves by k; the last window ends with the first k bytes of the next right
                let mut stream: Vec<u8> = vec![];
                for s in &w.chains[i].1 {
                    stream.extend_from_slice(&s.sk);
                }
                stream.extend_from_slice(&next_r[..k]);
                let mut m = w.clone();
                m.chains[i].0.extend_from_slice(&stream[..k]);
                for (q, s) in m.chains[i].1.iter_mut().enumerate() {
                    s.sk = stream[k + 32 * q..k + 32 * (q + 1)].to_vec();
                }
                m.chains[i + 1].0 = next_r[k..].to_vec();
                push("reframe-shift-right-boundary-forward", &m);
            }
            let this_r = w.chains[i].0.clone();
            for k in 1..=this_r.len().min(3) {
                // backward: the right loses its last k bytes to its first secret; the last k bytes
                // of the chain become the start of the next right
                let mut stream: Vec<u8> = this_r[this_r.len() - k..].to_vec();
                for s in &w.chains[i].1 {
                    stream.extend_from_slice(&s.sk);
                }
                let mut m = w.clone();
                m.chains[i].0.truncate(this_r.len() - k);
                for (q, s) in m.chains[i].1.iter_mut().enumerate() {
                    s.sk = stream[32 * q..32 * (q + 1)].to_vec();
                }
                let mut r2 = stream[32 * w.chains[i].1.len()..].to_vec();
                r2.extend_from_slice(&w.chains[i + 1].0);
                m.chains[i + 1].0 = r2;
                push("reframe-shift-right-boundary-backward", &m);
            }
        }
    }
    // first right vs last marker
    if n > 0 && w.chains[0].1.len() >= 2 && !w.chains[0].1[0].hybrid {
        let r = w.chains[0].0.clone();
        let s0 = w.chains[0].1[0].sk.clone();
        let mut marker = r.clone();
        marker.extend_from_slice(&s0[..32 - r.len()]);
        let mut m = w.clone();
        m.id.push(marker);
        m.chains[0].0 = s0[32 - r.len()..].to_vec();
        m.chains[0].1.remove(0);
        push("reframe-first-right-into-extra-marker", &m);
    }
    // ---- keys without any right -------------------------------------------------------------
    {
        let mut m = w.clone();
        m.chains.clear();
        push("remove-all-chains", &m);
        let mut m = w.clone();
        m.chains.clear();
        m.sig = None;
        push("remove-all-chains-and-signature", &m);
        let mut m = w.clone();
        m.chains.clear();
        m.id = other.id.clone();
        push("remove-all-chains-id-of-other-key", &m);
        let mut m = w.clone();
        for c in &mut m.chains {
            c.1.clear();
        }
        push("empty-every-chain", &m);
        let mut m = w.clone();
        m.chains.truncate(1);
        push("keep-only-first-chain", &m);
    }
    // ---- id, signature, splices -------------------------------------------------------------
    for (mi, mk) in w.id.iter().enumerate() {
        for _ in 0..12 {
            let bit = rng.below(mk.len() * 8);
            let mut m = w.clone();
            m.id[mi][bit / 8] ^= 1 << (bit % 8);
            push("bitflip-id-marker", &m);
        }
    }
    if w.id.len() >= 2 {
        let mut m = w.clone();
        m.id.swap(0, 1);
        push("swap-id-markers", &m);
        let mut m = w.clone();
        m.id.pop();
        push("drop-id-marker", &m);
    }
    if let Some(sig) = &w.sig {
        for bit in 0..sig.len() * 8 {
            let mut m = w.clone();
            m.sig.as_mut().unwrap()[bit / 8] ^= 1 << (bit % 8);
            push("bitflip-signature", &m);
        }
        let mut m = w.clone();
        m.sig = None;
        push("strip-signature", &m);
        let mut m = w.clone();
        m.sig = Some(vec![0; wire::SIGNATURE]);
        push("zero-signature", &m);
    }
    // every secret: a few bit flips in sk (and dk)
    for i in 0..n {
        for k in 0..w.chains[i].1.len() {
            for _ in 0..4 {
                let bit = rng.below(8 * 31);
                let mut m = w.clone();
                m.chains[i].1[k].sk[bit / 8] ^= 1 << (bit % 8);
                push("bitflip-secret-scalar", &m);
            }
            if w.chains[i].1[k].hybrid {
                for _ in 0..6 {
                    let bit = rng.below(8 * (wire::DK - 64));
                    let mut m = w.clone();
                    m.chains[i].1[k].dk[bit / 8] ^= 1 << (bit % 8);
                    push("bitflip-secret-mlkem-dk", &m);
                }
            }
        }
    }
    // splices of two issued keys
    {
        let mut m = other.clone();
        m.id = w.id.clone();
        push("splice-id-of-one-chains-of-other", &m);
        let mut m = w.clone();
        m.sig = other.sig.clone();
        push("splice-signature-of-other-key", &m);
        for cut in 0..=n.min(other.chains.len()) {
            let mut m = w.clone();
            m.chains = w.chains[..cut].iter().cloned().chain(other.chains[cut.min(other.chains.len())..].iter().cloned()).collect();
            if m.chains != w.chains && m.chains != other.chains {
                push("splice-chain-prefix-suffix", &m);
            }
        }
        let mut m = w.clone();
        m.chains.extend(other.chains.iter().filter(|c| !w.chains.iter().any(|x| x.0 == c.0)).cloned());
        if m.chains.len() != w.chains.len() {
            push("splice-add-rights-of-other-key", &m);
        }
    }
    out
}

fn fail(st: &mut Stats, sig: String, detail: String, replay: serde_json::Value) {
    st.findings.push(Finding { prop: "C08".into(), signature: format!("C08:{sig}"), detail, replay });
}

fn try_refresh(ctx: &mut Ctx, st: &mut Stats, op: &str, flav: &str, key_label: &str, bytes: &[u8], use_older_msk: bool) {
    st.bump("tampered_keys");
    let k = match de::<UserSecretKey>(bytes) {
        Out::Ok(k) => k,
        Out::Err(_) => {
            st.bump("rejected_by_deserialization");
            return;
        }
        Out::Panic(m) => {
            fail(st, format!("deserialization-panics:{op}"), m, json!({"monitor": "c08", "op": op, "key": wire::hex(bytes)}));
            return;
        }
    };
    if ctx.issued.iter().any(|i| i == &k) {
        // the very bytes of an issued key (e.g. a splice that rebuilt another issued key): fine.
        // Different bytes decoding to an issued key: the tampered *serialized form* is accepted
        // (the quantifier is over tamperings of the serialized form); only allowed for pure
        // field-level normalisations inside a secret (bit flips), not for structural operators.
        let same_bytes = ctx.issued.iter().any(|i| ser(i).ok().as_deref() == Some(bytes));
        if same_bytes || op.starts_with("bitflip-") {
            st.bump("equivalent_to_an_issued_key");
            return;
        }
        let mut kk = k.clone();
        let mut msk = match de::<MasterSecretKey>(&ctx.msk_bytes) {
            Out::Ok(m) => m,
            _ => return,
        };
        if call(|| ctx.cc.refresh_usk(&mut msk, &mut kk, true)).is_ok() {
            fail(
                st,
                format!("accepted-rearranged-serialization:{op}/{flav}"),
                format!("{op} applied to the serialized form of issued key {key_label}: the bytes differ from every issued key, deserialize to an issued key object, and refresh accepts them"),
                json!({"monitor": "c08", "op": op, "flavour": flav, "tampered_key": wire::hex(bytes)}),
            );
        }
        return;
    }
    let Some(before) = ser(&k).ok() else { return };
    for keep in [true, false] {
        let mut kk = k.clone();
        let mut msk = if use_older_msk {
            match de::<MasterSecretKey>(&ctx.older_msk) {
                Out::Ok(m) => m,
                _ => return,
            }
        } else {
            // work on the live master key; restore it from bytes if anything was accepted
            match de::<MasterSecretKey>(&ctx.msk_bytes) {
                Out::Ok(m) => m,
                _ => return,
            }
        };
        let out = call(|| ctx.cc.refresh_usk(&mut msk, &mut kk, keep));
        st.bump("refresh_attempts_on_non_issued_keys");
        st.shapes.insert(fnv(format!("{op}|{flav}").as_bytes()));
        match out {
            Out::Err(_) => {
                st.bump("refused");
                if ser(&kk).ok().as_ref() != Some(&before) {
                    fail(st, format!("refused-key-was-modified:{op}"), format!("{op} on {key_label}: refresh returned an error but the user key changed"), json!({"monitor": "c08", "op": op}));
                    return;
                }
                if !use_older_msk {
                    let after = ser(&msk).ok().and_then(|b| WMsk::parse(&b).ok()).map(|w| w.canonical());
                    if after.as_ref() != Some(&ctx.msk_canon) {
                        fail(st, format!("refused-but-master-key-modified:{op}"), format!("{op} on {key_label}"), json!({"monitor": "c08", "op": op}));
                        return;
                    }
                }
            }
            Out::Ok(()) => {
                fail(
                    st,
                    format!("accepted:{op}/{flav}"),
                    format!("{op} applied to issued key {key_label} ({flav}): refresh(keep={keep}) accepted a key that was never issued in that arrangement and re-signed it"),
                    json!({"monitor": "c08", "op": op, "flavour": flav, "tampered_key": wire::hex(bytes), "keep": keep}),
                );
                return;
            }
            Out::Panic(m) => {
                fail(st, format!("refresh-panics:{op}"), m, json!({"monitor": "c08", "op": op, "tampered_key": wire::hex(bytes)}));
                return;
            }
        }
    }
}

pub fn run(tier: &str, seed: u64) -> Stats {
    let shapes = if tier == "thorough" { 32 } else { 8 };
    let mut hs = vec![];
    for shape in 0..shapes {
        hs.push(std::thread::spawn(move || run_shape(shape, seed)));
    }
    let mut st = Stats::default();
    for h in hs {
        match h.join() {
            Ok(s) => st.merge(s),
            Err(_) => st.inconclusive.push("worker died".into()),
        }
    }
    let mut seen = std::collections::BTreeSet::new();
    st.findings.retain(|f| seen.insert(f.signature.clone()));
    st
}

fn run_shape(shape: usize, seed: u64) -> Stats {
    let mut st = Stats::default();
    let mut rng = Rng::new(seed ^ (shape as u64).wrapping_mul(0x9E37_79B9_7F4A_7C15));
    {
        let Some((mut ctx, keys)) = build(&mut rng, shape % 4, shape >= 4 && (shape / 4) % 2 == 1) else {
            st.inconclusive.push("fixture failed".into());
            return st;
        };
        st.add("issued_keys", keys.len() as u64);
        let wkeys: Vec<(String, WUsk)> = keys
            .iter()
            .filter_map(|(l, k)| ser(k).ok().and_then(|b| WUsk::parse(&b).ok()).map(|w| (l.clone(), w)))
            .collect();
        if wkeys.len() != keys.len() {
            st.inconclusive.push("wire reader rejects an issued key".into());
            return st;
        }
        // sanity: the untouched keys refresh
        for (l, k) in &keys {
            let mut kk = k.clone();
            let mut m = de::<MasterSecretKey>(&ctx.msk_bytes).ok().unwrap();
            if !call(|| ctx.cc.refresh_usk(&mut m, &mut kk, true)).is_ok() {
                st.inconclusive.push(format!("issued key {l} does not refresh"));
            }
        }
        for (idx, (label, w)) in wkeys.iter().enumerate() {
            let other = &wkeys[(idx + 1) % wkeys.len()].1;
            let flav = flavour(w);
            for (op, bytes) in catalogue(w, other, &mut rng) {
                try_refresh(&mut ctx, &mut st, &op, flav, label, &bytes, false);
            }
            // the scalars the re-framings produce must at least sometimes be canonical, otherwise
            // the operator was never really tried; recorded for the evidence
            let _ = arith::scalar_is_canonical(&w.id[0]);
        }
        // key issued by another master key
        if let Some(o) = ctx.other_msk_key.clone() {
            if let Some(b) = ser(&o).ok() {
                try_refresh(&mut ctx, &mut st, "key-issued-by-another-master-key", "classic", "D::A", &b, false);
            }
        }
        // key whose id an older serialization of the master key does not know
        for (l, k) in keys.iter().take(3) {
            if let Some(b) = ser(k).ok() {
                // against the older master key nothing is "issued"
                let saved = std::mem::take(&mut ctx.issued);
                try_refresh(&mut ctx, &mut st, "id-unknown-to-older-master-key", "any", l, &b, true);
                ctx.issued = saved;
            }
        }
        if st.samples.len() < 2 {
            st.samples.push(json!({
                "fixture": shape % 4,
                "issued_keys": wkeys.iter().map(|(l, w)| format!("{l}: {} rights, chain lengths {:?}, {}", w.chains.len(), w.chains.iter().map(|c| c.1.len()).collect::<Vec<_>>(), flavour(w))).collect::<Vec<_>>(),
            }));
        }
        let _ = &ctx.msk;
    }
    st
}
