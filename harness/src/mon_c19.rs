//! C19 — a shared instance is safe and live under concurrent use.
//!
//! 2–16 threads share one `Covercrypt` (and `&mpk`, `&usk`s, a queue of encapsulations); each
//! thread has its own master key (rebuilt from bytes) for keygen / refresh. Every result is
//! compared with its sequential meaning; cross-thread freshness sets; a watchdog decides
//! "blocked forever" from *process CPU time standing still*, not from wall-clock; the hook logs
//! lock attempts (and perturbs the schedule there) so that the interleavings actually produced
//! at the double-lock sites can be counted.

use std::{
    collections::{BTreeSet, HashSet},
    sync::{
        atomic::{AtomicBool, AtomicU64, Ordering},
        Arc, Mutex,
    },
    time::{Duration, Instant},
};

use cosmian_crypto_core::Aes256Gcm;
use serde_json::json;

use crate::{
    mon_c12::{fixture, Fixture},
    real::{self, *},
    report::{Finding, Stats},
    rng::{fnv, Rng},
    wire::WUsk,
};

#[cfg(feature = "hooks")]
use cosmian_cover_crypt::verif_hooks as hooks;

struct Shared {
    fx: Fixture,
    msk_bytes: Vec<u8>,
    /// (encapsulation, secret, hybrid target?)
    queue: Mutex<Vec<(XEnc, [u8; 32], bool)>>,
    fresh: Mutex<HashSet<Vec<u8>>>,
    /// last sampled position of the shared instance's generator in its key stream
    last_pos: Mutex<u128>,
    ops_done: AtomicU64,
    stop: AtomicBool,
    findings: Mutex<Vec<Finding>>,
}

fn fail(sh: &Shared, sig: &str, detail: String, replay: &serde_json::Value) {
    sh.findings.lock().unwrap().push(Finding {
        prop: "C19".into(),
        signature: format!("C19:{sig}"),
        detail,
        replay: replay.clone(),
    });
}

fn fresh(sh: &Shared, kind: &str, v: &[u8], replay: &serde_json::Value) {
    let mut k = kind.as_bytes().to_vec();
    k.push(0);
    k.extend_from_slice(v);
    if !sh.fresh.lock().unwrap().insert(k) {
        fail(sh, &format!("value-repeated-across-threads:{kind}"), format!("a {kind} was produced twice"), replay);
    }
}

fn thread_body(sh: Arc<Shared>, tid: u64, n_ops: usize, seed: u64, replay: serde_json::Value) -> Stats {
    let mut st = Stats::default();
    #[cfg(feature = "hooks")]
    hooks::set_thread_label(tid + 1);
    let mut rng = Rng::new(seed ^ tid.wrapping_mul(0x9E37_79B9_7F4A_7C15));
    let cc = &sh.fx.cc;
    let Some(mut msk) = de::<MasterSecretKey>(&sh.msk_bytes).ok() else {
        st.inconclusive.push("cannot rebuild the master key".into());
        return st;
    };
    // a private, larger master key: one more dimension of hybridized attributes, so that re-keying
    // it holds the shared lock for milliseconds (long critical sections are part of the schedule
    // space: a caller that gives up or misbehaves while somebody holds the lock must show up)
    if tid % 2 == 0 {
        let _ = msk.access_structure.add_anarchy("X".into());
        for i in 0..6 {
            let _ = msk.access_structure.add_attribute(QualifiedAttribute::new("X", &format!("x{i}")), hint(true), None);
        }
        if !call(|| cc.update_msk(&mut msk)).is_ok() {
            fail(&sh, "update-fails", "private master key".into(), &replay);
        }
    }
    let star = AccessPolicy::parse("*").unwrap();
    let mut my_mpk: Option<MasterPublicKey> = None;
    let mut my_usk: Option<(UserSecretKey, bool, bool)> = None;
    for _ in 0..n_ops {
        if sh.stop.load(Ordering::Relaxed) {
            break;
        }
        let hybrid = rng.chance(1, 2);
        let ap = if hybrid { &sh.fx.hybrid_ap } else { &sh.fx.classic_ap };
        let op = rng.weighted(&[6, 8, 4, 5, 2, 2, 2, 1]);
        match op {
            0 => {
                // encaps → queue
                match call(|| cc.encaps(&sh.fx.mpk, ap)) {
                    Out::Ok((s, e)) => {
                        let sb = real::secret_bytes(&s);
                        fresh(&sh, "encapsulated secret", &sb, &replay);
                        let mut q = sh.queue.lock().unwrap();
                        q.push((e, sb, hybrid));
                        if q.len() > 64 {
                            q.remove(0);
                        }
                        st.bump("encaps");
                    }
                    o => fail(&sh, "encaps-fails", o.describe(), &replay),
                }
            }
            1 => {
                // decaps of somebody's encapsulation with every shared key
                let item = {
                    let q = sh.queue.lock().unwrap();
                    if q.is_empty() {
                        None
                    } else {
                        Some(q[rng.below(q.len())].clone())
                    }
                };
                let Some((e, s, h)) = item else { continue };
                for (label, usk, c_ok, h_ok) in &sh.fx.keys {
                    let authorized = if h { *h_ok } else { *c_ok };
                    match (authorized, call(|| cc.decaps(usk, &e))) {
                        (true, Out::Ok(Some(x))) if real::secret_bytes(&x) == s => st.bump("decaps_authorized_ok"),
                        (false, Out::Ok(None)) => st.bump("decaps_unauthorized_refused"),
                        (a, o) => fail(&sh, &format!("decaps-differs-from-sequential-meaning:{}", if a { "authorized" } else { "unauthorized" }), format!("key {label}: {}", match o { Out::Ok(Some(_)) => "Some(other/unexpected secret)".to_string(), Out::Ok(None) => "None".to_string(), x => x.describe() }), &replay),
                    }
                }
            }
            2 => {
                // PKE round trip (two lock acquisitions inside encrypt)
                let n = rng.below(64);
                let ptx = rng.bytes(n);
                match call(|| <Covercrypt as PkeAc<{ Aes256Gcm::KEY_LENGTH }, Aes256Gcm>>::encrypt(cc, &sh.fx.mpk, ap, &ptx)) {
                    Out::Ok(c) => {
                        if c.1.len() >= 12 {
                            fresh(&sh, "PKE nonce", &c.1[..12], &replay);
                        }
                        let usk = &sh.fx.keys[0].1;
                        match call(|| <Covercrypt as PkeAc<{ Aes256Gcm::KEY_LENGTH }, Aes256Gcm>>::decrypt(cc, usk, &c)) {
                            Out::Ok(Some(p)) if p.as_slice() == ptx.as_slice() => st.bump("pke_roundtrips"),
                            o => fail(&sh, "pke-roundtrip-broken", match o { Out::Ok(Some(_)) => "wrong plaintext".to_string(), Out::Ok(None) => "None".to_string(), x => x.describe() }, &replay),
                        }
                        let unauth = &sh.fx.keys[2].1;
                        match call(|| <Covercrypt as PkeAc<{ Aes256Gcm::KEY_LENGTH }, Aes256Gcm>>::decrypt(cc, unauth, &c)) {
                            Out::Ok(None) => {}
                            o => fail(&sh, "pke-unauthorized-not-refused", o.describe(), &replay),
                        }
                    }
                    o => fail(&sh, "pke-encrypt-fails", o.describe(), &replay),
                }
            }
            3 => {
                // header round trip (encaps lock, then rng() lock)
                let n = rng.below(40);
                let meta = rng.bytes(n);
                match call(|| EncryptedHeader::generate(cc, &sh.fx.mpk, ap, Some(&meta), Some(b"a"))) {
                    Out::Ok((secret, h)) => {
                        if let Some(em) = &h.encrypted_metadata {
                            fresh(&sh, "header nonce", &em[..12.min(em.len())], &replay);
                        }
                        fresh(&sh, "header secret", &real::secret_bytes(&secret), &replay);
                        let usk = &sh.fx.keys[0].1;
                        match call(|| h.decrypt(cc, usk, Some(b"a"))) {
                            Out::Ok(Some(c)) if c.metadata.clone().unwrap_or_default() == meta && real::secret_bytes(&c.secret) == real::secret_bytes(&secret) => st.bump("header_roundtrips"),
                            o => fail(&sh, "header-roundtrip-broken", match o { Out::Ok(Some(_)) => "wrong content".to_string(), Out::Ok(None) => "None".to_string(), x => x.describe() }, &replay),
                        }
                    }
                    o => fail(&sh, "header-generate-fails", o.describe(), &replay),
                }
            }
            4 => {
                // keygen on this thread's own master key, then use the key on a shared encapsulation
                match call(|| cc.generate_user_secret_key(&mut msk, ap)) {
                    Out::Ok(u) => {
                        if let Some(Ok(w)) = ser(&u).ok().map(|b| WUsk::parse(&b)) {
                            fresh(&sh, "user id", &w.id.concat(), &replay);
                        }
                        st.bump("keygens");
                        my_usk = Some((u, true, hybrid));
                    }
                    o => fail(&sh, "keygen-fails", o.describe(), &replay),
                }
            }
            6 => {
                // re-encapsulation of a queued encapsulation with this thread's master key
                let item = {
                    let q = sh.queue.lock().unwrap();
                    if q.is_empty() {
                        None
                    } else {
                        Some(q[rng.below(q.len())].clone())
                    }
                };
                let Some((e, s, h)) = item else { continue };
                match call(|| cc.recaps(&msk, &sh.fx.mpk, &e)) {
                    Out::Ok((s2, e2)) => {
                        let sb = real::secret_bytes(&s2);
                        if sb == s {
                            fail(&sh, "recaps-returns-the-original-secret", String::new(), &replay);
                        }
                        fresh(&sh, "encapsulated secret", &sb, &replay);
                        let mut q = sh.queue.lock().unwrap();
                        q.push((e2, sb, h));
                        st.bump("recaps");
                    }
                    o => fail(&sh, "recaps-fails", o.describe(), &replay),
                }
            }
            7 => {
                // long critical section: re-key every right of the private master key
                match call(|| cc.rekey(&mut msk, &star)) {
                    Out::Ok(m) => {
                        my_mpk = Some(m);
                        st.bump("long_rekeys")
                    }
                    o => fail(&sh, "rekey-fails", o.describe(), &replay),
                }
                // this thread's key is now stale for the rotated rights: refresh it
                if let Some((u, _, _)) = &mut my_usk {
                    if !call(|| cc.refresh_usk(&mut msk, u, true)).is_ok() {
                        fail(&sh, "refresh-fails", "after a long rekey".into(), &replay);
                    }
                }
            }
            _ => {
                // refresh this thread's key, then check it against a queued encapsulation
                if let Some((u, _, kh)) = &mut my_usk {
                    let keep = rng.chance(1, 2);
                    match call(|| cc.refresh_usk(&mut msk, u, keep)) {
                        Out::Ok(()) => st.bump("refreshes"),
                        o => fail(&sh, "refresh-fails", o.describe(), &replay),
                    }
                    // a fresh encapsulation under the public key of this thread's master key (the
                    // shared one until the private key was re-keyed) must open with the refreshed key
                    let kap = if *kh { &sh.fx.hybrid_ap } else { &sh.fx.classic_ap };
                    let mpk_now = my_mpk.as_ref().unwrap_or(&sh.fx.mpk);
                    if let Out::Ok((s, e)) = call(|| cc.encaps(mpk_now, kap)) {
                        match call(|| cc.decaps(u, &e)) {
                            Out::Ok(Some(x)) if real::secret_bytes(&x) == real::secret_bytes(&s) => st.bump("decaps_authorized_ok"),
                            o => fail(&sh, "own-key-decaps-differs-from-sequential-meaning", match o { Out::Ok(Some(_)) => "wrong secret".to_string(), Out::Ok(None) => "None".to_string(), x => x.describe() }, &replay),
                        }
                    }
                }
            }
        }
        // the instance's generator only ever moves forward: its stream position is sampled under
        // the monitor's own lock (so that two samples are ordered in real time)
        if st.get("ops") % 3 == 0 {
            let mut last = sh.last_pos.lock().unwrap();
            if let Out::Ok(p) = call_inf(|| sh.fx.cc.rng().get_word_pos()) {
                st.bump("rng_position_samples");
                if p < *last {
                    fail(&sh, "instance-generator-moved-backwards", format!("stream position {p} after {} had been observed: output already handed out will be produced again", *last), &replay);
                }
                *last = p;
            }
        }
        sh.ops_done.fetch_add(1, Ordering::Relaxed);
        st.bump("ops");
    }
    st
}

/// Is any thread of this process other than the caller in state R (running / runnable)?
fn any_other_thread_runnable() -> bool {
    let me = unsafe { libc::syscall(libc::SYS_gettid) } as u64;
    let Ok(dir) = std::fs::read_dir("/proc/self/task") else { return true };
    for e in dir.flatten() {
        let tid: u64 = e.file_name().to_string_lossy().parse().unwrap_or(0);
        if tid == me {
            continue;
        }
        if let Ok(stat) = std::fs::read_to_string(e.path().join("stat")) {
            if let Some(rest) = stat.rsplit_once(')') {
                if rest.1.trim_start().starts_with('R') {
                    return true;
                }
            }
        }
    }
    false
}

fn process_cpu_s() -> f64 {
    let mut ts = libc::timespec { tv_sec: 0, tv_nsec: 0 };
    unsafe {
        libc::clock_gettime(libc::CLOCK_PROCESS_CPUTIME_ID, &mut ts);
    }
    ts.tv_sec as f64 + ts.tv_nsec as f64 * 1e-9
}

/// One run: `n_threads` threads × `n_ops` operations on a fresh shared instance.
fn one_run(n_threads: usize, n_ops: usize, seed: u64, st: &mut Stats) -> bool {
    let Some(fx) = fixture() else {
        st.inconclusive.push("fixture failed".into());
        return false;
    };
    let Some(msk_bytes) = ser(&fx.msk).ok() else { return false };
    let replay = json!({"monitor": "c19", "threads": n_threads, "ops_per_thread": n_ops, "run_seed": seed});
    let sh = Arc::new(Shared {
        fx,
        msk_bytes,
        queue: Mutex::new(vec![]),
        fresh: Mutex::new(HashSet::new()),
        last_pos: Mutex::new(0),
        ops_done: AtomicU64::new(0),
        stop: AtomicBool::new(false),
        findings: Mutex::new(vec![]),
    });
    #[cfg(feature = "hooks")]
    {
        hooks::lock_log_enable(true);
        hooks::set_perturbation(seed | 1);
    }
    let mut hs = vec![];
    for t in 0..n_threads {
        let sh = sh.clone();
        let replay = replay.clone();
        hs.push(std::thread::spawn(move || thread_body(sh, t as u64, n_ops, seed, replay)));
    }
    // watchdog: progress by operation count; "blocked" = no operation completes while the process
    // burns no CPU (all threads parked) for 20 s
    let mut last = (0u64, process_cpu_s(), Instant::now());
    let mut deadlock = false;
    loop {
        if hs.iter().all(|h| h.is_finished()) {
            break;
        }
        std::thread::sleep(Duration::from_millis(50));
        let done = sh.ops_done.load(Ordering::Relaxed);
        let cpu = process_cpu_s();
        if done != last.0 {
            last = (done, cpu, Instant::now());
        } else if last.2.elapsed() > Duration::from_secs(20) {
            // blocked = no CPU consumed AND no thread is runnable (a starved process on an overloaded
            // machine has runnable threads; parked threads are in state S)
            if cpu - last.1 < 0.5 && !any_other_thread_runnable() {
                deadlock = true;
                break;
            }
            // CPU is being burnt without progress: a spin, or just a slow machine — keep waiting
            // until the outer watchdog (inconclusive)
            if last.2.elapsed() > Duration::from_secs(600) {
                st.inconclusive.push("no progress for 600 s although CPU time advances".into());
                sh.stop.store(true, Ordering::Relaxed);
                break;
            }
        }
    }
    if deadlock {
        // the threads are stuck and cannot be joined; report and let the caller exit the process
        st.findings.push(Finding {
            prop: "C19".into(),
            signature: "C19:all-threads-blocked".into(),
            detail: format!("{n_threads} threads: no call returned for 20 s while the process consumed no CPU time ({} operations had completed)", last.0),
            replay,
        });
        return false;
    }
    for h in hs {
        match h.join() {
            Ok(s) => st.merge(s),
            Err(_) => st.findings.push(Finding { prop: "C19".into(), signature: "C19:worker-thread-panicked".into(), detail: "a worker thread panicked outside a guarded call".into(), replay: replay.clone() }),
        }
    }
    st.findings.extend(std::mem::take(&mut *sh.findings.lock().unwrap()));
    st.bump("runs");
    // interleavings observed at the double-lock sites
    #[cfg(feature = "hooks")]
    {
        hooks::set_perturbation(0);
        let log = hooks::lock_log_take();
        hooks::lock_log_enable(false);
        st.add("lock_events", log.len() as u64);
        // for each thread: an `encaps` attempt followed by `encrypt_relock` or `rng` (header) by
        // the same thread; what did the other threads do in between?
        let mut open: std::collections::HashMap<u64, usize> = std::collections::HashMap::new();
        let mut max_between = 0usize;
        for (i, ev) in log.iter().enumerate() {
            match ev.site {
                "encaps" => {
                    open.insert(ev.thread, i);
                }
                "encrypt_relock" | "rng" => {
                    if let Some(start) = open.remove(&ev.thread) {
                        let between: Vec<&str> = log[start + 1..i].iter().filter(|e| e.thread != ev.thread).map(|e| e.site).take(4).collect();
                        max_between = max_between.max(log[start + 1..i].iter().filter(|e| e.thread != ev.thread).count());
                        if !between.is_empty() {
                            st.bump("double_lock_windows_interleaved");
                        } else {
                            st.bump("double_lock_windows_uninterrupted");
                        }
                        st.shapes.insert(fnv(format!("{}|{:?}", ev.site, between).as_bytes()));
                    }
                }
                _ => {
                    // any other call by that thread means the window (if any) is over
                    open.remove(&ev.thread);
                }
            }
        }
        let c = st.counters.entry("max_foreign_lock_attempts_inside_a_double_lock_window".into()).or_insert(0);
        *c = (*c).max(max_between as u64);
    }
    #[cfg(not(feature = "hooks"))]
    {
        st.shapes.insert(fnv(format!("nohooks|{n_threads}").as_bytes()));
        st.shapes.insert(fnv(format!("nohooks|{n_ops}").as_bytes()));
    }
    true
}

/// First use of fresh instances by several threads at once: whatever initialisation an instance
/// defers to its first call must not let a racing thread draw from a not-yet-seeded generator.
/// Everything drawn by every trial goes into one set: a repeated value across instances is the event.
fn first_use_race(trials: usize, seed: u64, st: &mut Stats) {
    let Some(fx) = fixture() else {
        st.inconclusive.push("fixture failed".into());
        return;
    };
    let fx = Arc::new(fx);
    let mut all: HashSet<Vec<u8>> = HashSet::new();
    let replay = json!({"monitor": "c19", "phase": "first-use-race", "run_seed": seed});
    #[cfg(feature = "hooks")]
    hooks::set_perturbation(seed | 1);
    for trial in 0..trials {
        let n_threads = [2usize, 3, 4, 8][trial % 4];
        let cc = Arc::new(cosmian_cover_crypt::api::Covercrypt::default());
        let barrier = Arc::new(std::sync::Barrier::new(n_threads));
        let mut hs = vec![];
        for t in 0..n_threads {
            let (cc, fx, barrier) = (cc.clone(), fx.clone(), barrier.clone());
            hs.push(std::thread::spawn(move || -> Vec<(&'static str, Vec<u8>)> {
                let mut got = vec![];
                let ap = if t % 2 == 0 { &fx.classic_ap } else { &fx.hybrid_ap };
                barrier.wait();
                if t % 4 == 3 {
                    // a whole new master key as the first call
                    if let Out::Ok((msk, _)) = call(|| cc.setup()) {
                        if let Some(Ok(w)) = ser(&msk).ok().map(|b| crate::wire::WMsk::parse(&b)) {
                            got.push(("master binding scalar", w.s.clone()));
                        }
                    }
                } else if let Out::Ok((s, e)) = call(|| cc.encaps(&fx.mpk, ap)) {
                    got.push(("encapsulated secret", real::secret_bytes(&s).to_vec()));
                    if let Some(Ok(w)) = ser(&e).ok().map(|b| crate::wire::WXenc::parse(&b)) {
                        got.push(("tag", w.tag.clone()));
                    }
                }
                got
            }));
        }
        for h in hs {
            match h.join() {
                Ok(got) => {
                    for (kind, v) in got {
                        st.bump("first_use_values");
                        let mut k = kind.as_bytes().to_vec();
                        k.push(0);
                        k.extend_from_slice(&v);
                        if !all.insert(k) {
                            st.findings.push(Finding {
                                prop: "C19".into(),
                                signature: format!("C19:value-repeated-across-fresh-instances:{}", kind.replace(' ', "-")),
                                detail: format!("trial {trial}: a {kind} drawn by a thread racing for the first use of a fresh instance had already been drawn on another fresh instance"),
                                replay: replay.clone(),
                            });
                        }
                    }
                }
                Err(_) => st.findings.push(Finding { prop: "C19".into(), signature: "C19:worker-thread-panicked".into(), detail: "first-use race: a thread panicked outside a guarded call".into(), replay: replay.clone() }),
            }
        }
        st.bump("first_use_race_trials");
    }
    #[cfg(feature = "hooks")]
    hooks::set_perturbation(0);
}

/// One call that keeps the instance busy for seconds (a master-key update creating ~38 000
/// hybridized rights on a private master key) while other threads use the same instance for small
/// operations: they may wait, but every one of their calls must end with its sequential result.
fn long_hold(st: &mut Stats) {
    let Some(fx) = fixture() else {
        st.inconclusive.push("fixture failed".into());
        return;
    };
    let fx = Arc::new(fx);
    let cc = Arc::new(cosmian_cover_crypt::api::Covercrypt::default());
    let Out::Ok((mut big, _)) = call(|| cc.setup()) else { return };
    for d in 0..4 {
        let dn = format!("W{d}");
        let _ = big.access_structure.add_anarchy(dn.clone());
        for a in 0..13 {
            let _ = big.access_structure.add_attribute(QualifiedAttribute::new(&dn, &format!("a{a}")), hint(true), None);
        }
    }
    let replay = json!({"monitor": "c19", "phase": "long-hold"});
    let done = Arc::new(AtomicBool::new(false));
    let started = Arc::new(AtomicBool::new(false));
    let mut hs = vec![];
    for t in 0..3usize {
        let (cc, fx, done, started, replay) = (cc.clone(), fx.clone(), done.clone(), started.clone(), replay.clone());
        hs.push(std::thread::spawn(move || -> (u64, Vec<Finding>) {
            let mut n = 0u64;
            let mut findings = vec![];
            while !started.load(Ordering::Acquire) {
                std::thread::yield_now();
            }
            while !done.load(Ordering::Acquire) {
                let ap = if (n as usize + t) % 2 == 0 { &fx.classic_ap } else { &fx.hybrid_ap };
                let hybrid = (n as usize + t) % 2 == 1;
                let problem = match call(|| cc.encaps(&fx.mpk, ap)) {
                    Out::Ok((s, e)) => {
                        let mut p = None;
                        for (label, usk, ok_c, ok_h) in &fx.keys {
                            let expect = if hybrid { *ok_h } else { *ok_c };
                            match call(|| cc.decaps(usk, &e)) {
                                Out::Ok(Some(k)) if expect && real::secret_bytes(&k) == real::secret_bytes(&s) => {}
                                Out::Ok(None) if !expect => {}
                                o => {
                                    p = Some(format!("decaps with key '{label}' returned {} (authorized: {expect})", match &o { Out::Ok(Some(_)) => "a secret".to_string(), Out::Ok(None) => "None".to_string(), x => x.describe() }));
                                    break;
                                }
                            }
                        }
                        p
                    }
                    o => Some(format!("encaps returned {}", o.describe())),
                };
                if let Some(p) = problem {
                    findings.push(Finding {
                        prop: "C19".into(),
                        signature: "C19:call-differs-from-sequential-meaning-while-instance-is-busy".into(),
                        detail: format!("while another thread was inside a long update_msk on the same instance: {p}"),
                        replay: replay.clone(),
                    });
                    break;
                }
                n += 1;
            }
            (n, findings)
        }));
    }
    let t0 = Instant::now();
    started.store(true, Ordering::Release);
    let out = call(|| cc.update_msk(&mut big));
    let held = t0.elapsed();
    done.store(true, Ordering::Release);
    for h in hs {
        if let Ok((n, f)) = h.join() {
            st.add("ops_completed_around_a_long_call", n);
            st.findings.extend(f);
        }
    }
    if !out.is_ok() {
        st.inconclusive.push(format!("long update_msk did not succeed: {}", out.describe()));
        return;
    }
    st.add("long_call_ms", held.as_millis() as u64);
    st.bump("long_hold_runs");
    st.shapes.insert(fnv(b"long-hold"));
}

pub fn run(tier: &str, seed: u64, budget_s: u64, out: Option<&str>) -> Stats {
    let mut st = Stats::default();
    let mut rng = Rng::new(seed);
    let start = Instant::now();
    first_use_race(if tier == "thorough" { 2000 } else { 300 }, rng.next(), &mut st);
    long_hold(&mut st);
    let budget = Duration::from_secs(if budget_s > 0 { budget_s } else if tier == "thorough" { 180 } else { 25 });
    let mut configs: BTreeSet<(usize, usize)> = BTreeSet::new();
    while start.elapsed() < budget {
        let n_threads = *rng.pick(&[2usize, 3, 4, 8, 16]);
        let n_ops = 2000 / n_threads;
        configs.insert((n_threads, n_ops));
        if !one_run(n_threads, n_ops, rng.next(), &mut st) {
            if st.findings.iter().any(|f| f.signature == "C19:all-threads-blocked") {
                // stuck threads: write what we have and leave the process
                if let Some(p) = out {
                    let mut v = st.to_json("C19", crate::wire::CONFIG);
                    v["wall_s"] = json!(start.elapsed().as_secs_f64());
                    let _ = std::fs::write(p, serde_json::to_string_pretty(&v).unwrap());
                }
                std::process::exit(0);
            }
            break;
        }
    }
    st.sample(json!({"runs(threads, ops/thread)": configs.iter().map(|c| format!("{c:?}")).collect::<Vec<_>>(), "operations": "encaps→queue, decaps of queued encapsulations with authorized/unauthorized shared keys, PKE round trip, header round trip, keygen and refresh on a per-thread master key", "perturbation": "seeded yield/sleep before every lock attempt (hook)"}), 2);
    let mut seen = BTreeSet::new();
    st.findings.retain(|f| seen.insert(f.signature.clone()));
    st
}
