//! C16 — every secret, nonce and identifier is fresh (statistical monitor).
//!
//! N identical calls of each operation, across threads and instances; every value that must be
//! fresh goes into a hash set. Also: no nonce bit position is constant, and the secret handed to
//! the caller of `EncryptedHeader::generate` is not the key that encrypts the metadata.

use std::{
    collections::{BTreeMap, HashSet},
    sync::{Arc, Mutex},
};

use cosmian_crypto_core::{Aes256Gcm, Dem, FixedSizeCBytes, Instantiable, Nonce, SymmetricKey};
use serde_json::json;

use crate::{
    mon_c12::fixture,
    real::{self, *},
    report::{Finding, Stats},
    rng::fnv,
    wire::{WHeader, WMpk, WUsk, WXenc},
};

#[derive(Default)]
struct Sets {
    sets: BTreeMap<&'static str, HashSet<Vec<u8>>>,
    dups: BTreeMap<&'static str, u64>,
    nonce_and: BTreeMap<&'static str, Vec<u8>>,
    nonce_or: BTreeMap<&'static str, Vec<u8>>,
    count: BTreeMap<&'static str, u64>,
}

impl Sets {
    fn put(&mut self, kind: &'static str, v: Vec<u8>) {
        *self.count.entry(kind).or_insert(0) += 1;
        if kind.ends_with("nonce") {
            let a = self.nonce_and.entry(kind).or_insert_with(|| vec![0xff; v.len()]);
            for (x, y) in a.iter_mut().zip(&v) {
                *x &= *y;
            }
            let o = self.nonce_or.entry(kind).or_insert_with(|| vec![0; v.len()]);
            for (x, y) in o.iter_mut().zip(&v) {
                *x |= *y;
            }
        }
        if !self.sets.entry(kind).or_default().insert(v) {
            *self.dups.entry(kind).or_insert(0) += 1;
        }
    }
    fn merge(&mut self, o: Sets) {
        for (k, c) in o.count {
            *self.count.entry(k).or_insert(0) += c;
        }
        for (k, s) in o.sets {
            let mine = self.sets.entry(k).or_default();
            for v in s {
                // published values legitimately coincide between copies of one master key
                if !mine.insert(v) && !k.starts_with("published") {
                    *self.dups.entry(k).or_insert(0) += 1;
                }
            }
        }
        for (k, d) in o.dups {
            *self.dups.entry(k).or_insert(0) += d;
        }
        for (k, a) in o.nonce_and {
            let m = self.nonce_and.entry(k).or_insert_with(|| vec![0xff; a.len()]);
            for (x, y) in m.iter_mut().zip(&a) {
                *x &= *y;
            }
        }
        for (k, a) in o.nonce_or {
            let m = self.nonce_or.entry(k).or_insert_with(|| vec![0; a.len()]);
            for (x, y) in m.iter_mut().zip(&a) {
                *x |= *y;
            }
        }
    }
}

fn worker(n: usize, shared: Arc<crate::mon_c12::Fixture>, sets: &mut Sets, st: &mut Stats) {
    // the instance (and its RNG) is shared by all threads of the group; the master key is a
    // private copy (rebuilt from bytes) because key generation and rekey need `&mut`
    struct Local<'a> {
        cc: &'a Covercrypt,
        msk: MasterSecretKey,
        mpk: MasterPublicKey,
    }
    let Some(msk) = ser(&shared.msk).ok().and_then(|b| de::<MasterSecretKey>(&b).ok()) else {
        st.inconclusive.push("cannot copy the master key".into());
        return;
    };
    let Some(mpk) = call(|| msk.mpk()).ok() else { return };
    let mut fx = Local { cc: &shared.cc, msk, mpk };
    let ap_c = shared.classic_ap.clone();
    let ap_h = shared.hybrid_ap.clone();
    let ptx = b"identical plaintext".to_vec();
    let mut prev: std::collections::HashMap<Vec<u8>, Vec<u8>> = std::collections::HashMap::new();
    let mut seen: HashSet<(Vec<u8>, Vec<u8>)> = HashSet::new();
    for i in 0..n {
        let ap = if i % 2 == 0 { &ap_c } else { &ap_h };
        // encapsulation
        if let Out::Ok((s, e)) = call(|| fx.cc.encaps(&fx.mpk, ap)) {
            st.bump("encaps_calls");
            sets.put("encapsulated secret", real::secret_bytes(&s).to_vec());
            if let Some(Ok(w)) = ser(&e).ok().map(|b| WXenc::parse(&b)) {
                sets.put("tag", w.tag.clone());
                for t in &w.traps {
                    sets.put("trap", t.clone());
                }
                for (ct, f) in &w.encs {
                    sets.put("masked seed F", f.clone());
                    if !ct.is_empty() {
                        sets.put("ML-KEM ciphertext", ct.clone());
                    }
                }
            }
        }
        // PKE
        if let Out::Ok((e, c)) = call(|| <Covercrypt as PkeAc<{ Aes256Gcm::KEY_LENGTH }, Aes256Gcm>>::encrypt(fx.cc, &fx.mpk, ap, &ptx)) {
            st.bump("pke_calls");
            if c.len() >= 12 {
                sets.put("PKE nonce", c[..12].to_vec());
            }
            if let Some(Ok(w)) = ser(&e).ok().map(|b| WXenc::parse(&b)) {
                sets.put("tag", w.tag.clone());
            }
        }
        // header
        // the authentication data rotates over absent / empty / every single byte / a string: the
        // key-separation probe below must hold whatever the caller passes
        let aad_choice: Option<Vec<u8>> = match i % 8 {
            0 | 1 => None,
            2 => Some(vec![]),
            3 => Some(b"aad".to_vec()),
            _ => Some(vec![((i / 8) % 256) as u8]),
        };
        if let Out::Ok((secret, h)) = call(|| EncryptedHeader::generate(fx.cc, &fx.mpk, ap, Some(b"identical metadata"), aad_choice.as_deref())) {
            st.bump("header_calls");
            sets.put("header secret", real::secret_bytes(&secret).to_vec());
            if let Some(Ok(w)) = ser(&h).ok().map(|b| WHeader::parse(&b)) {
                if w.meta.len() >= 12 {
                    sets.put("header nonce", w.meta[..12].to_vec());
                    // the caller's secret must not be the metadata key
                    if i % 16 == 0 || i % 8 >= 4 {
                        let key = SymmetricKey::<32>::try_from_bytes(real::secret_bytes(&secret)).ok();
                        if let (Some(key), Ok(nonce)) = (key, Nonce::<12>::try_from_slice(&w.meta[..12])) {
                            st.bump("metadata_key_separation_checks");
                            let dem = Aes256Gcm::new(&key);
                            if dem.decrypt(&nonce, &w.meta[12..], None).is_ok() || dem.decrypt(&nonce, &w.meta[12..], aad_choice.as_deref()).is_ok() {
                                st.findings.push(Finding {
                                    prop: "C16".into(),
                                    signature: "C16:caller-secret-decrypts-metadata".into(),
                                    detail: "the secret returned by EncryptedHeader::generate, used as AES-256-GCM key, decrypts the metadata".into(),
                                    replay: json!({"monitor": "c16"}),
                                });
                            }
                        }
                    }
                }
            }
        }
        // re-encapsulation, twice in a row on the same input (nothing else of this thread in
        // between): both outputs must be fresh
        if i % 8 == 0 {
            if let Out::Ok((_, e)) = call(|| fx.cc.encaps(&fx.mpk, ap)) {
                for _ in 0..2 {
                    if let Out::Ok((s, x)) = call(|| fx.cc.recaps(&fx.msk, &fx.mpk, &e)) {
                        st.bump("recaps_calls");
                        sets.put("encapsulated secret", real::secret_bytes(&s).to_vec());
                        if let Some(Ok(w)) = ser(&x).ok().map(|b| WXenc::parse(&b)) {
                            sets.put("tag", w.tag.clone());
                            for t in &w.traps {
                                sets.put("trap", t.clone());
                            }
                        }
                    }
                }
            }
        }
        // user ids (less often: key generation is heavier)
        if i % 4 == 0 {
            if let Out::Ok(u) = call(|| fx.cc.generate_user_secret_key(&mut fx.msk, ap)) {
                st.bump("keygen_calls");
                if let Some(Ok(w)) = ser(&u).ok().map(|b| WUsk::parse(&b)) {
                    sets.put("user id", w.id.concat());
                    if let Some(m) = w.id.first() {
                        sets.put("user marker", m.clone());
                    }
                }
            }
        }
        // rekey the same right again and again: published values never repeat
        if i % 16 == 0 {
            let ap = if (i / 16) % 2 == 0 { &ap_c } else { &ap_h };
            if let Out::Ok(mpk) = call(|| fx.cc.rekey(&mut fx.msk, ap)) {
                st.bump("rekey_calls");
                if let Some(Ok(w)) = ser(&mpk).ok().map(|b| WMpk::parse(&b)) {
                    // the rotated rights must show a value never published before (for that
                    // right, by this master key); the other rights keep theirs
                    let mut changed = 0;
                    for (r, k) in &w.keys {
                        let mut v = k.h.clone();
                        v.extend_from_slice(&k.ek);
                        if prev.get(r) != Some(&v) {
                            changed += 1;
                            if prev.contains_key(r) && !seen.insert((r.clone(), v.clone())) {
                                st.findings.push(Finding {
                                    prop: "C16".into(),
                                    signature: "C16:rekey-republishes-old-value".into(),
                                    detail: format!("right {:02x?}: the value published after a rekey had been published before", r),
                                    replay: json!({"monitor": "c16"}),
                                });
                            }
                            seen.insert((r.clone(), v.clone()));
                            prev.insert(r.clone(), v.clone());
                            // ... and so must each of its components: the point and the ML-KEM key
                            for (what, c) in [("point", &k.h), ("ML-KEM encapsulation key", &k.ek)] {
                                let mut tagged = vec![what.len() as u8];
                                tagged.extend_from_slice(c);
                                let mut rt = r.clone();
                                rt.push(0xfe);
                                if !c.is_empty() && !seen.insert((rt, tagged)) {
                                    st.findings.push(Finding {
                                        prop: "C16".into(),
                                        signature: format!("C16:rekey-republishes-old-component:{}", what.split(' ').next().unwrap_or("")),
                                        detail: format!("right {:02x?}: the {what} published after a rekey had been published before for that right", r),
                                        replay: json!({"monitor": "c16"}),
                                    });
                                }
                            }
                            st.bump("published_components_checked_after_rekey");
                            let mut t = r.clone();
                            t.push(0xff);
                            t.extend_from_slice(&k.h);
                            sets.sets.entry("published H (per right)").or_default().insert(t);
                        }
                    }
                    if changed == 0 {
                        st.findings.push(Finding {
                            prop: "C16".into(),
                            signature: "C16:rekey-publishes-nothing-new".into(),
                            detail: "a rekey left every published value unchanged".into(),
                            replay: json!({"monitor": "c16"}),
                        });
                    }
                    st.add("published_values_checked_after_rekey", changed);
                }
                fx.mpk = mpk;
                // the rotated rights must show a new H each time: counted below
                *sets.count.entry("rekeys").or_insert(0) += 1;
            }
        }
    }
}

/// Single-threaded: every ordered pair (A, B) of randomness-consuming calls, back to back on one
/// instance. Catches a call that does not advance the shared generator (its successor would repeat
/// its randomness), which a long mixed run can mask.
fn sequential_pairs(sets: &mut Sets, st: &mut Stats) {
    let Some(fx) = fixture() else { return };
    let Some(mut msk) = ser(&fx.msk).ok().and_then(|b| de::<MasterSecretKey>(&b).ok()) else { return };
    let ap = fx.classic_ap.clone();
    let aph = fx.hybrid_ap.clone();
    let Out::Ok((_, base)) = call(|| fx.cc.encaps(&fx.mpk, &aph)) else { return };
    let names = ["encaps", "recaps", "pke-encrypt", "header-generate", "keygen", "rekey", "refresh", "setup"];
    let mut usk = fx.keys[0].1.clone();
    let mut mpk = call(|| msk.mpk()).ok().unwrap();
    let mut do_op = |k: usize, sets: &mut Sets, msk: &mut MasterSecretKey, usk: &mut UserSecretKey, mpk: &mut MasterPublicKey| {
        match k {
            0 => {
                if let Out::Ok((s, x)) = call(|| fx.cc.encaps(mpk, &aph)) {
                    sets.put("encapsulated secret", real::secret_bytes(&s).to_vec());
                    if let Some(Ok(w)) = ser(&x).ok().map(|b| WXenc::parse(&b)) {
                        sets.put("tag", w.tag.clone());
                        for (ct, f) in &w.encs {
                            sets.put("masked seed F", f.clone());
                            if !ct.is_empty() {
                                sets.put("ML-KEM ciphertext", ct.clone());
                            }
                        }
                    }
                }
            }
            1 => {
                if let Out::Ok((s, x)) = call(|| fx.cc.recaps(msk, mpk, &base)) {
                    sets.put("encapsulated secret", real::secret_bytes(&s).to_vec());
                    if let Some(Ok(w)) = ser(&x).ok().map(|b| WXenc::parse(&b)) {
                        sets.put("tag", w.tag.clone());
                        for (ct, f) in &w.encs {
                            sets.put("masked seed F", f.clone());
                            if !ct.is_empty() {
                                sets.put("ML-KEM ciphertext", ct.clone());
                            }
                        }
                    }
                }
            }
            2 => {
                if let Out::Ok((e, c)) = call(|| <Covercrypt as PkeAc<{ Aes256Gcm::KEY_LENGTH }, Aes256Gcm>>::encrypt(&fx.cc, mpk, &aph, b"p")) {
                    if c.len() >= 12 {
                        sets.put("PKE nonce", c[..12].to_vec());
                    }
                    if let Some(Ok(w)) = ser(&e).ok().map(|b| WXenc::parse(&b)) {
                        sets.put("tag", w.tag.clone());
                    }
                }
            }
            3 => {
                if let Out::Ok((s, h)) = call(|| EncryptedHeader::generate(&fx.cc, mpk, &aph, Some(b"m"), None)) {
                    sets.put("header secret", real::secret_bytes(&s).to_vec());
                    if let Some(Ok(w)) = ser(&h).ok().map(|b| WHeader::parse(&b)) {
                        if w.meta.len() >= 12 {
                            sets.put("header nonce", w.meta[..12].to_vec());
                        }
                        sets.put("tag", w.enc.tag.clone());
                    }
                }
            }
            4 => {
                if let Out::Ok(u) = call(|| fx.cc.generate_user_secret_key(msk, &ap)) {
                    if let Some(Ok(w)) = ser(&u).ok().map(|b| WUsk::parse(&b)) {
                        sets.put("user id", w.id.concat());
                    }
                }
            }
            5 => {
                if let Out::Ok(m) = call(|| fx.cc.rekey(msk, &aph)) {
                    if let Some(Ok(w)) = ser(&m).ok().map(|b| WMpk::parse(&b)) {
                        // the rotated rights' new public values
                        for (r, k) in &w.keys {
                            let mut t = r.clone();
                            t.push(0xfe);
                            t.extend_from_slice(&k.h);
                            sets.sets.entry("published H (per right)").or_default().insert(t);
                        }
                    }
                    *mpk = m;
                }
            }
            6 => {
                let _ = call(|| fx.cc.refresh_usk(msk, usk, true));
            }
            _ => {
                if let Out::Ok((m, _)) = call(|| fx.cc.setup()) {
                    if let Some(Ok(w)) = ser(&m).ok().map(|b| crate::wire::WMsk::parse(&b)) {
                        sets.put("master scalar", w.s.clone());
                    }
                }
            }
        }
    };
    for a in 0..names.len() {
        for b in 0..names.len() {
            for _ in 0..3 {
                do_op(a, sets, &mut msk, &mut usk, &mut mpk);
                do_op(b, sets, &mut msk, &mut usk, &mut mpk);
            }
            st.bump("sequential_pairs");
            st.shapes.insert(fnv(format!("pair|{}|{}", names[a], names[b]).as_bytes()));
        }
    }
}

/// A long-lived instance: the generator of a fresh instance is moved far ahead in its key stream
/// through the public `rng()` accessor (a pure seek: 16 GiB, 64 GiB, 256 GiB … of output later),
/// between identical batches of calls. Whatever the instance does after that much output
/// (re-keying, counters wrapping), it must not produce again what it produced before.
fn long_lived_instance(sets: &mut Sets, st: &mut Stats) {
    let Some(fx) = fixture() else { return };
    let Some(mut msk) = ser(&fx.msk).ok().and_then(|b| de::<MasterSecretKey>(&b).ok()) else { return };
    let cc = Covercrypt::default();
    let mut batch = |sets: &mut Sets, msk: &mut MasterSecretKey| {
        for i in 0..6 {
            let ap = if i % 2 == 0 { &fx.classic_ap } else { &fx.hybrid_ap };
            if let Out::Ok((s, x)) = call(|| cc.encaps(&fx.mpk, ap)) {
                sets.put("encapsulated secret", real::secret_bytes(&s).to_vec());
                if let Some(Ok(w)) = ser(&x).ok().map(|b| WXenc::parse(&b)) {
                    sets.put("tag", w.tag.clone());
                }
            }
            if let Out::Ok((_, c)) = call(|| <Covercrypt as PkeAc<{ Aes256Gcm::KEY_LENGTH }, Aes256Gcm>>::encrypt(&cc, &fx.mpk, ap, b"p")) {
                if c.len() >= 12 {
                    sets.put("PKE nonce", c[..12].to_vec());
                }
            }
            if let Out::Ok((s, h)) = call(|| EncryptedHeader::generate(&cc, &fx.mpk, ap, Some(b"m"), None)) {
                sets.put("header secret", real::secret_bytes(&s).to_vec());
                if let Some(Ok(w)) = ser(&h).ok().map(|b| WHeader::parse(&b)) {
                    if w.meta.len() >= 12 {
                        sets.put("header nonce", w.meta[..12].to_vec());
                    }
                }
            }
            if let Out::Ok(u) = call(|| cc.generate_user_secret_key(msk, ap)) {
                if let Some(Ok(w)) = ser(&u).ok().map(|b| WUsk::parse(&b)) {
                    sets.put("user id", w.id.concat());
                }
            }
        }
    };
    batch(sets, &mut msk);
    for pos in [1u128 << 32, (1u128 << 32) + 1_000_003, 1u128 << 34, 1u128 << 36, (1u128 << 40) + 17, 1u128 << 60] {
        let moved = call_inf(|| cc.rng().set_word_pos(pos));
        if !moved.is_ok() {
            st.bump("long_lived_seek_failed");
            continue;
        }
        batch(sets, &mut msk);
        st.bump("long_lived_instance_epochs");
        st.shapes.insert(fnv(format!("long-lived|{pos}").as_bytes()));
    }
}

/// Nonces of PKE ciphertexts of large plaintexts (whatever path large inputs take, each gets a
/// nonce of its own), on two instances.
fn large_plaintexts(sets: &mut Sets, st: &mut Stats) {
    let Some(fx) = fixture() else { return };
    let other = Covercrypt::default();
    for len in [65_536usize, (1 << 20) - 1, 1 << 20, (1 << 20) + 1, (1 << 21) + 3, 5 << 20] {
        let ptx = vec![0x5au8; len];
        for (i, cc) in [&fx.cc, &other, &fx.cc, &other].into_iter().enumerate() {
            let ap = if i % 2 == 0 { &fx.classic_ap } else { &fx.hybrid_ap };
            if let Out::Ok((_, c)) = call(|| <Covercrypt as PkeAc<{ Aes256Gcm::KEY_LENGTH }, Aes256Gcm>>::encrypt(cc, &fx.mpk, ap, &ptx)) {
                st.bump("large_plaintext_encryptions");
                if c.len() >= 12 {
                    sets.put("PKE nonce", c[..12].to_vec());
                }
            }
        }
        st.shapes.insert(fnv(format!("large-plaintext|{len}").as_bytes()));
    }
}

/// Many instances in one process: every instance must have its own randomness (master scalar from
/// `setup`, first encapsulated secret).
fn many_instances(sets: &mut Sets, st: &mut Stats, n: usize) {
    let star = AccessPolicy::parse("*").unwrap();
    for _ in 0..n {
        let cc = Covercrypt::default();
        if let Out::Ok((msk, mpk)) = call(|| cc.setup()) {
            st.bump("instances");
            if let Some(Ok(w)) = ser(&msk).ok().map(|b| crate::wire::WMsk::parse(&b)) {
                sets.put("master scalar", w.s.clone());
            }
            if let Out::Ok((s, _)) = call(|| cc.encaps(&mpk, &star)) {
                sets.put("encapsulated secret", real::secret_bytes(&s).to_vec());
            }
        }
    }
}

pub fn run(tier: &str, _seed: u64, threads: usize) -> Stats {
    let n_total = if tier == "thorough" { 400_000 } else { 64_000 };
    // P-256 and ML-KEM-768 are several times slower: same workload, fewer repetitions
    let n_total = if crate::wire::CONFIG.starts_with('B') { n_total / 5 } else { n_total };
    // 4 instances, each shared by threads/4 threads (cross-thread and cross-instance freshness)
    let per = n_total / threads.max(1);
    let all = Arc::new(Mutex::new((Sets::default(), Stats::default())));
    let groups = 4.min(threads.max(1));
    let mut fixtures = vec![];
    for _ in 0..groups {
        match fixture() {
            Some(f) => fixtures.push(Arc::new(f)),
            None => {
                let mut st = Stats::default();
                st.inconclusive.push("fixture failed".into());
                return st;
            }
        }
    }
    let mut hs = vec![];
    for t in 0..threads {
        let all = all.clone();
        let shared = fixtures[t % groups].clone();
        hs.push(std::thread::spawn(move || {
            let mut sets = Sets::default();
            let mut st = Stats::default();
            worker(per, shared, &mut sets, &mut st);
            let mut g = all.lock().unwrap();
            g.0.merge(sets);
            g.1.merge(st);
        }));
    }
    for h in hs {
        let _ = h.join();
    }
    let (mut sets, mut st) = std::mem::take(&mut *all.lock().unwrap());
    {
        let mut seq = Sets::default();
        sequential_pairs(&mut seq, &mut st);
        long_lived_instance(&mut seq, &mut st);
        large_plaintexts(&mut seq, &mut st);
        many_instances(&mut seq, &mut st, if tier == "thorough" { 20_000 } else { 1_200 });
        for (k, d) in &seq.dups {
            if *d > 0 {
                st.findings.push(Finding {
                    prop: "C16".into(),
                    signature: format!("C16:repeated-value-in-back-to-back-calls:{k}"),
                    detail: format!("{d} repeated {k}s when calling every ordered pair of operations back to back on one instance, or across many fresh instances"),
                    replay: json!({"monitor": "c16", "phase": "sequential-pairs"}),
                });
            }
        }
        seq.dups.clear();
        sets.merge(seq);
    }
    for (k, d) in &sets.dups {
        if *d > 0 {
            st.findings.push(Finding {
                prop: "C16".into(),
                signature: format!("C16:repeated-value:{k}"),
                detail: format!("{d} repeated values among {} observed {k}s", sets.sets.get(k).map_or(0, |s| s.len())),
                replay: json!({"monitor": "c16"}),
            });
        }
    }
    for (k, a) in &sets.nonce_and {
        let o = &sets.nonce_or[k];
        let n = sets.sets.get(k).map_or(0, |s| s.len());
        if n >= 200 && (a.iter().any(|b| *b != 0) || o.iter().any(|b| *b != 0xff)) {
            st.findings.push(Finding {
                prop: "C16".into(),
                signature: format!("C16:constant-bits:{k}"),
                detail: format!("over {n} {k}s some bit positions never changed (AND={:02x?} OR={:02x?})", a, o),
                replay: json!({"monitor": "c16"}),
            });
        }
    }
    let mut observed = serde_json::Map::new();
    for (k, s) in &sets.sets {
        observed.insert(k.to_string(), json!(s.len()));
        st.add(&format!("distinct {k}"), s.len() as u64);
        st.add("values_observed", s.len() as u64);
        // one "shape" per kind of value and order of magnitude observed
        st.shapes.insert(fnv(format!("{k}|{}", s.len().max(1).ilog10()).as_bytes()));
    }
    st.sample(json!({"distinct_values_per_kind": observed, "threads": threads, "instances": 4, "calls_per_worker": per}), 2);
    st
}
