#!/bin/sh
# MANIFEST.setup_cmd: warm the offline builds of the harness (configs A and B) against /repo.
set -e
cd "$(dirname "$0")"
export CARGO_NET_OFFLINE=true
cp /repo/Cargo.lock harness/Cargo.lock 2>/dev/null || true
CARGO_TARGET_DIR=.build/A cargo build --offline --profile checked --manifest-path harness/Cargo.toml --features hooks
CARGO_TARGET_DIR=.build/B cargo build --offline --profile checked --manifest-path harness/Cargo.toml --no-default-features --features cfg-b,hooks
