#!/bin/bash
# C14 thorough step: a 1-in-10 sample of the mutant corpus, in process, under valgrind memcheck.
# usage: lib/valgrind_c14.sh <prop> <tier> <seed> <out.json>
OUT=$4; SEED=$3
cd "$(dirname "$0")/.."
BIN=.build/A/checked/ccmon
LOG=.build/out/valgrind-c14.log
mkdir -p .build/out; rm -f $OUT.inner
START=$(date +%s)
timeout 2700 valgrind --tool=memcheck --error-exitcode=97 --errors-for-leak-kinds=none --leak-check=no --num-callers=20 \
   $BIN c14-sample C14 --seed $SEED --stride 10 --out $OUT.inner > $LOG 2>&1
RC=$?
END=$(date +%s)
python3 - "$OUT" "$RC" "$LOG" "$((END-START))" <<'PY'
import json,sys,os,re
out,rc,log,wall=sys.argv[1],int(sys.argv[2]),sys.argv[3],int(sys.argv[4])
text=open(log,errors="replace").read()
inner=out+".inner"
d=json.load(open(inner)) if os.path.exists(inner) else {"counters":{},"shapes":[],"states":0,"samples":[],"foreign_findings":{},"inconclusive":[],"findings":[]}
d["config"]="A-valgrind"; d["wall_s"]=wall
m=re.search(r"ERROR SUMMARY: (\d+) errors",text)
errs=int(m.group(1)) if m else None
d["counters"]["valgrind_errors"]=errs or 0
d["samples"]=[{"valgrind":"memcheck on a 1-in-10 sample of the C14 corpus (deserialize + use)","mutants_run":d["counters"].get("mutants_run",0),"error_summary":errs}]
if rc==97 or (errs and errs>0):
    d["findings"].append({"property":"C14","signature":"C14:valgrind-memcheck-report","count":errs or 1,"detail":text[-3000:],"replay":{"monitor":"valgrind"}})
elif rc!=0 or not os.path.exists(inner):
    d["inconclusive"].append(f"valgrind run exited {rc}: {text[-400:]}")
json.dump(d,open(out,"w"))
if os.path.exists(inner): os.remove(inner)
PY
