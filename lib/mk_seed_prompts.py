#!/usr/bin/env python3
"""Writes the prompt given to each fresh sub-agent of a seeding round (one per property) into
/tmp/seed/<Cnn>.prompt.txt. The agent gets: the property text, its own scratch worktree path, and the
one-line summaries of earlier seeded changes (so that it looks elsewhere). Nothing about the monitors."""
import glob, json, os, sys
ROOT = os.path.dirname(os.path.dirname(os.path.abspath(__file__)))
props = [json.loads(l) for l in open(os.path.join(ROOT, "properties.jsonl"))]
taken = []
for m in sorted(glob.glob(os.path.join(ROOT, "seeded", "*", "meta.json"))):
    d = json.load(open(m))
    taken.append(f"- ({d.get('property')}) {str(d.get('summary'))[:150]}")
DIRECTIONS = sys.argv[1] if len(sys.argv) > 1 else ""
T = open(os.path.join(ROOT, "lib", "seed_prompt_template.txt")).read()
os.makedirs("/tmp/seed", exist_ok=True)
for p in props:
    text = f"{p['id']}: {p['title']}\n\n{p['statement']}\n\nQuantifier: {p['quantifier']['text']}\n"
    out = T.replace("@ID@", p["id"]).replace("@PROPERTY@", text).replace("@TAKEN@", "\n".join(taken)).replace("@DIRECTIONS@", DIRECTIONS)
    open(f"/tmp/seed/{p['id']}.prompt.txt", "w").write(out)
print(len(props), "prompts,", len(taken), "taken ideas")
