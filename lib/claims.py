"""What each check claims (texts used in MANIFEST.json)."""

HOOK_COMMITS = ["f9e3b6b"]

_MODEL = ("Trusted base: the reference model (harness/src/model.rs), the independent wire reader (harness/src/wire.rs), "
          "the OS RNG. Coverage is the workload's: structures up to 3 dimensions x 3-4 attributes, histories up to ~70 "
          "operations, both feature configurations.")

CLAIMS = {
    "C01": {
        "text": "Runtime oracle: every (user key, encapsulation) pair of randomly generated structures/policies - including "
                "every right of Omega as a target - is decapsulated by the real code and compared with a reference cover "
                "relation (two independent formulations cross-checked). Held on K executions, not proved.",
        "design_ref": "§4 C01", "note": _MODEL,
        "technique": "lock-step reference-model monitor over generated workloads (decaps matrix), configs A and B",
    },
    "C02": {
        "text": "Same executions as C01, other half of the decision table: unauthorized pairs must give Ok(None); plus the "
                "structural monitor that the rights inside each serialized key are exactly the model's complementary space.",
        "design_ref": "§4 C02", "note": _MODEL,
        "technique": "lock-step reference-model monitor + wire-level rights-set invariant",
    },
    "C03": {
        "text": "Histories of structure edits executed on the real API in lock-step with a token-based model; decaps matrix "
                "over original keys and over byte-copies refreshed with either flag; attribute-id observation from the "
                "serialized structure.",
        "design_ref": "§4 C03", "note": _MODEL,
        "technique": "history-based reference-model monitor (edit/update/keygen/refresh/encaps interleavings)",
    },
    "C04": {
        "text": "Rotation histories (rekey over arbitrary policies, refresh with either flag) in lock-step with a version-chain "
                "model; behavioural matrix plus byte-level 'user chain is a sub-sequence of the master chain' invariant.",
        "design_ref": "§4 C04", "note": _MODEL,
        "technique": "history-based reference-model monitor + wire-level chain invariants",
    },
    "C05": {
        "text": "Revocation histories (prune, delete+update, refresh) in lock-step with the model: removed secrets must be gone "
                "from the serialized key and unusable; master chains of pruned rights have length 1.",
        "design_ref": "§4 C05", "note": _MODEL,
        "technique": "history-based reference-model monitor + wire-level chain invariants",
    },
    "C06": {
        "text": "Disable histories: after every MPK-producing call (update, rekey, prune, msk.mpk(), after MSK round trips) the "
                "activation bytes, the published rights and encaps Ok/Err for policies over the disabled attribute are "
                "compared with the model; earlier encapsulations stay openable, refresh keeps working.",
        "design_ref": "§4 C06", "note": _MODEL,
        "technique": "history-based reference-model monitor + activation-flag observation on the wire",
    },
    "C09": {
        "text": "Every call of every history (valid and deliberately invalid arguments, all sync states) is judged Ok/Err "
                "against the documented list; panics count as failures.",
        "design_ref": "§4 C09", "note": _MODEL,
        "technique": "history-based contract monitor (expected Ok/Err from the reference model)",
    },
    "C11": {
        "text": "Flavour bytes and sizes of master/public/user secrets and of encapsulations are read from the wire after every "
                "operation and compared with the hints of the model, through rekey/refresh/round trips.",
        "design_ref": "§4 C11", "note": _MODEL,
        "technique": "wire-level flavour monitor over generated histories",
    },
    "C13": {
        "text": "Round-trip injection at random steps of lifecycle histories: announced length, equality after round trip, exact "
                "consumption by an independent reader, and unchanged later outcomes (the history continues on the copy).",
        "design_ref": "§4 C13", "note": _MODEL,
        "technique": "round-trip injection in lock-step histories + independent wire reader",
    },
    "C18": {
        "text": "Recaps histories: expected target set computed by the model (still held, activated and published), Ok/Err "
                "of recaps, freshness of the new secret, audience checked by the decaps matrix over refreshed keys.",
        "design_ref": "§4 C18", "note": _MODEL,
        "technique": "history-based reference-model monitor of recaps",
    },
}

NOT_APPLICABLE = {p: "check under construction in this snapshot (not a claim that the technique does not apply)" for p in
                  ["C07", "C08", "C10", "C12", "C14", "C15", "C16", "C17", "C19"]}
