"""What each check claims (texts used in MANIFEST.json)."""

HOOK_COMMITS = ["f9e3b6b"]

_MODEL = ("Trusted base: the reference model (harness/src/model.rs), the independent wire reader (harness/src/wire.rs), "
          "the OS RNG. Coverage is the workload's: structures up to 3 dimensions x 3-4 attributes, histories up to ~70 "
          "operations, both feature configurations.")

CLAIMS = {
    "C01": {
        "text": "Runtime oracle: every (user key, encapsulation) pair of randomly generated structures/policies - including "
                "every right of Omega as a target - is decapsulated by the real code and compared with a reference cover "
                "relation (two independent formulations cross-checked). Held on K executions, not proved.",
        "design_ref": "§4 C01", "note": _MODEL,
        "technique": "lock-step reference-model monitor over generated workloads (decaps matrix), configs A and B",
    },
    "C02": {
        "text": "Same executions as C01, other half of the decision table: unauthorized pairs must give Ok(None); plus the "
                "structural monitor that the rights inside each serialized key are exactly the model's complementary space.",
        "design_ref": "§4 C02", "note": _MODEL,
        "technique": "lock-step reference-model monitor + wire-level rights-set invariant",
    },
    "C03": {
        "text": "Histories of structure edits executed on the real API in lock-step with a token-based model; decaps matrix "
                "over original keys and over byte-copies refreshed with either flag; attribute-id observation from the "
                "serialized structure.",
        "design_ref": "§4 C03", "note": _MODEL,
        "technique": "history-based reference-model monitor (edit/update/keygen/refresh/encaps interleavings)",
    },
    "C04": {
        "text": "Rotation histories (rekey over arbitrary policies, refresh with either flag) in lock-step with a version-chain "
                "model; behavioural matrix plus byte-level 'user chain is a sub-sequence of the master chain' invariant.",
        "design_ref": "§4 C04", "note": _MODEL,
        "technique": "history-based reference-model monitor + wire-level chain invariants",
    },
    "C05": {
        "text": "Revocation histories (prune, delete+update, refresh) in lock-step with the model: removed secrets must be gone "
                "from the serialized key and unusable; master chains of pruned rights have length 1; a scenario on names that "
                "differ only by surrounding white space (deletion acts on the named attribute).",
        "design_ref": "§4 C05", "note": _MODEL,
        "technique": "history-based reference-model monitor + wire-level chain invariants",
    },
    "C06": {
        "text": "Disable histories: after every MPK-producing call (update, rekey, prune, msk.mpk(), after MSK round trips) the "
                "activation bytes, the published rights and encaps Ok/Err for policies over the disabled attribute are "
                "compared with the model; earlier encapsulations stay openable, refresh keeps working.",
        "design_ref": "§4 C06", "note": _MODEL,
        "technique": "history-based reference-model monitor + activation-flag observation on the wire",
    },
    "C09": {
        "text": "Every call of every history (valid and deliberately invalid arguments, all sync states) is judged Ok/Err "
                "against the documented list; panics count as failures. Invalid arguments include disjunctions with one invalid "
                "clause and policy objects no string yields (invalid OR Broadcast).",
        "design_ref": "§4 C09", "note": _MODEL,
        "technique": "history-based contract monitor (expected Ok/Err from the reference model)",
    },
    "C11": {
        "text": "Flavour bytes and sizes of master/public/user secrets and of encapsulations are read from the wire after every "
                "operation and compared with the hints of the model, through rekey/refresh/round trips.",
        "design_ref": "§4 C11", "note": _MODEL,
        "technique": "wire-level flavour monitor over generated histories",
    },
    "C13": {
        "text": "Round-trip injection at random steps of lifecycle histories: announced length, equality after round trip, exact "
                "consumption by an independent reader, and unchanged later outcomes (the history continues on the copy).",
        "design_ref": "§4 C13", "note": _MODEL,
        "technique": "round-trip injection in lock-step histories + independent wire reader",
    },
    "C18": {
        "text": "Recaps histories: expected target set computed by the model (still held, activated and published), Ok/Err "
                "of recaps, freshness of the new secret, audience checked by the decaps matrix over refreshed keys.",
        "design_ref": "§4 C18", "note": _MODEL,
        "technique": "history-based reference-model monitor of recaps",
    },
}

_FE = ("Trusted base: the independent wire reader/writer (harness/src/wire.rs) used to build the mutants, PartialEq of the "
       "crate's types to recognise equivalent encodings. Both feature configurations.")

CLAIMS.update({
    "C07": {
        "text": "Exhaustive single-bit fault enumeration over six serialized encapsulations plus an enumerated catalogue of "
                "structural rearrangements and splices; every mutant that deserializes to a different object is decapsulated by "
                "every key: any Ok(Some) is a violation. Same for PKE ciphertexts and header metadata.",
        "design_ref": "§4 C07", "note": _FE,
        "technique": "fault enumeration (every bit + structural operators) with a decapsulation oracle; ASan run in thorough",
    },
    "C08": {
        "text": "Enumerated catalogue of named tamper operators on issued keys; refresh must refuse every non-issued arrangement "
                "and leave key and master key byte-identical (half of the fixtures carry structure edits not yet applied by "
                "update_msk). The unframed-MAC re-framings are a recorded open finding.",
        "design_ref": "§4 C08, §6", "note": _FE,
        "technique": "fault enumeration (tamper-operator catalogue) with refresh as oracle; known-findings file keyed on operator/flavour",
    },
    "C12": {
        "text": "Grid of plaintext/metadata lengths (0 .. 2 MiB, LEB128 and 64 KiB / 1 MiB boundaries) x AAD pairs x key classes x "
                "flavours, with truncation and bit-flip sweeps and structural alterations of the serialized header; "
                "outputs compared byte-for-byte with the inputs.",
        "design_ref": "§4 C12", "note": "Trusted base: none beyond the harness; inputs are their own oracle.",
        "technique": "round-trip and authentication monitor over an input grid with truncation/bit-flip sweeps",
    },
    "C15": {
        "text": "Bounded-exhaustive totality (all strings over an 11-symbol alphabet up to length 6/7), a sweep of every low byte on "
                "nine code-point pages inside names, random strings over look-alike characters, and truth-table "
                "equivalence of parsed policies and DNFs against the generating formulas.",
        "design_ref": "§4 C15", "note": "Trusted base: the harness's own formula evaluator and printer.",
        "technique": "bounded-exhaustive input enumeration + truth-table oracle on the public AccessPolicy enum",
    },
    "C16": {
        "text": "Statistical freshness monitor: hash sets of every value that must not repeat, across threads and instances, "
                "constant-bit detection on nonces, key-separation probe for header metadata; per-component freshness of rekeyed rights; "
                "a long-lived-instance phase (generator moved 2^32..2^60 words ahead through rng() between identical batches).",
        "design_ref": "§4 C16, §8.6", "note": "Detects constant/low-entropy/counter-reset/cross-thread reuse, not 2^-96 collisions.",
        "technique": "statistical uniqueness monitor over repeated identical calls (values read from the wire)",
    },
    "C17": {
        "text": "Tracing relation recomputed outside the crate (curve25519 via crypto_core, P-256 via p256) from scalars and "
                "points read off the wire after every keygen/refresh/round trip; unknown ids must be refused; two thirds of the "
                "histories on master keys with 3 or 5 tracers; registries of 20 000 - 40 000 ids (issued = registered).",
        "design_ref": "§4 C17, §8.6", "note": "Trusted base: wire reader, curve libraries.",
        "technique": "history monitor with independent group arithmetic on wire-level observations",
    },
})

CLAIMS.update({
    "C10": {
        "text": "Before/after comparison of the serialized keys around every failing call: natural error causes in every state "
                "of the contract workload, plus failure injection at every fallible step of update/rekey/keygen/refresh "
                "(position of the failing right enumerated through a failpoint hook).",
        "design_ref": "§4 C10, §5", "note": _MODEL + " Failpoint sites: RightSecretKey::random, TracingSecretKey::generate_user_id.",
        "technique": "fault injection (failpoint hook, every position) + state-unchanged monitor on serialized keys",
    },
    "C14": {
        "text": "Enumerated corruption of every serialized type in isolated worker processes under a counting allocator, an "
                "iterator-step ceiling and CPU clocks; parsed mutants are used in decapsulation / header decryption / accessors. "
                "Thorough tier repeats under AddressSanitizer and a sample under valgrind memcheck.",
        "design_ref": "§4 C14", "note": _FE + " Bounds: 64*len+1MiB memory, 5 s CPU per input (honest cost: ms).",
        "technique": "fault enumeration in sandboxed workers with allocator/step/CPU monitors; ASan + valgrind in thorough",
    },
    "C19": {
        "text": "Stress runs on one shared instance with schedule perturbation at the lock sites (hook), per-call sequential "
                "oracles, cross-thread freshness sets, CPU-time based deadlock watchdog, lock-event log analysis; first concurrent use "
                "of hundreds of fresh instances; small calls around one multi-second call on the same instance; thorough adds "
                "ThreadSanitizer (build-std) and Miri (many seeds) on the same scenario.",
        "design_ref": "§4 C19, §8.6", "note": "Samples schedules; the lock protocol is one mutex held per primitive. TSan/Miri reports fail the check.",
        "technique": "concurrent stress with schedule perturbation + sequential oracle; TSan and Miri in thorough",
    },
})

NOT_APPLICABLE = {p: "check under construction in this snapshot (not a claim that the technique does not apply)" for p in
                  []}
