#!/usr/bin/env python3
"""Applies each sanity mutant (reverse patch of a fix, or hand-made break) to /repo, runs the checks that
should notice, restores /repo, and prints a table. Usage: lib/sanity.py [pattern]"""
import glob, os, subprocess, sys, json, time
ROOT = os.path.dirname(os.path.dirname(os.path.abspath(__file__)))
EXPECT = {
    "b0b39c5": ["C04", "C14"], "7423466": ["C05"], "2f2e8f5": ["C06"], "36a89ae": ["C10"], "415bbe8": ["C09"],
    "13aa0e5": ["C10"], "af3cc86": ["C10"], "0ed150e": ["C03"], "cfaa305": ["C14"], "a0088f6": ["C14"],
    "a75c6a7": ["C14"], "33672f9": ["C15"], "e601b9e": ["C18"],
}
pat = sys.argv[1] if len(sys.argv) > 1 else ""
rows = []
for path in sorted(glob.glob(os.path.join(ROOT, "sanity", "*.diff")) + glob.glob(os.path.join(ROOT, "seeded", "*", "patch.diff"))):
    if pat and pat not in path:
        continue
    key = os.path.basename(path).split("-")[1] if "/sanity/" in path else os.path.basename(os.path.dirname(path))
    props = EXPECT.get(key)
    if props is None and os.path.basename(path).startswith("hand-"):
        props = [os.path.basename(path)[:-5].split("-")[-1]]
    if props is None:
        meta = os.path.join(os.path.dirname(path), "meta.json")
        props = json.load(open(meta)).get("checks", [json.load(open(meta))["property"]]) if os.path.exists(meta) else []
    assert subprocess.run(["git", "-C", "/repo", "status", "--porcelain"], capture_output=True, text=True).stdout.strip() == "", "/repo not clean"
    r = subprocess.run(["git", "-C", "/repo", "apply", path], capture_output=True, text=True)
    if r.returncode != 0:
        rows.append((key, "-", "patch does not apply: " + r.stderr.strip()[:100]))
        continue
    try:
        for p in props:
            t = time.time()
            c = subprocess.run([os.path.join(ROOT, "check"), p, "--tier", "quick"], capture_output=True, text=True, cwd=ROOT)
            first = [l for l in c.stdout.splitlines() if l.startswith(("VIOLATION", "  signature", "INCONCLUSIVE", "HELD"))][:2]
            rows.append((key, p, f"exit={c.returncode} {time.time()-t:.0f}s " + " | ".join(first)[:220]))
    finally:
        subprocess.run(["git", "-C", "/repo", "checkout", "--", "."], check=True)
        subprocess.run(["git", "-C", "/repo", "clean", "-fdq", "src"], check=False)
for r in rows:
    print("%-10s %-4s %s" % r)
