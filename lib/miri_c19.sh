#!/bin/bash
# C19 thorough step: the 2-thread scenario (harness/src/bin/c19_miri.rs) under Miri with many seeds.
# usage: lib/miri_c19.sh <prop> <tier> <seed> <out.json>
OUT=$4
cd "$(dirname "$0")/../harness"
export CARGO_NET_OFFLINE=true CARGO_TARGET_DIR=/verif/.build/A-miri
START=$(date +%s)
LOG=/verif/.build/out/miri-c19.log
mkdir -p /verif/.build/out
FROM=$(( ($3 % 4) * 16 )); TO=$(( FROM + 16 ))
MIRIFLAGS="-Zmiri-disable-isolation -Zmiri-many-seeds=${FROM}..${TO}" timeout 5400 cargo +nightly miri run --offline --bin c19_miri --features hooks > $LOG 2>&1
RC=$?
OK=$(grep -c "^MIRI-OK" $LOG)
UB=$(grep -c "Undefined Behavior\|Data race detected\|error: unsupported operation\|error: deadlock\|panicked at" $LOG)
END=$(date +%s)
python3 - "$OUT" "$OK" "$UB" "$RC" "$LOG" "$FROM" "$TO" "$((END-START))" <<'PY'
import json,sys
out,ok,ub,rc,log,fr,to,wall=sys.argv[1],int(sys.argv[2]),int(sys.argv[3]),int(sys.argv[4]),sys.argv[5],int(sys.argv[6]),int(sys.argv[7]),int(sys.argv[8])
tail=open(log,errors="replace").read()[-2500:]
d={"property":"C19","config":"A-miri","counters":{"miri_seeds_run":to-fr,"miri_executions_ok":ok,"ops":6*ok},
   "shapes":[f"miri-seed-{s:04x}" for s in range(fr,fr+ok)],"states":0,
   "samples":[{"miri":"2 threads on one shared instance: T0 encaps+decaps, T1 PKE encrypt/decrypt + header generate/decrypt (both double-lock paths)","seeds":f"{fr}..{to}","executions_ok":ok}],
   "foreign_findings":{},"inconclusive":[],"findings":[],"wall_s":wall}
if ub>0:
    d["findings"].append({"property":"C19","signature":"C19:miri-report","count":ub,"detail":tail,"replay":{"monitor":"miri","seeds":f"{fr}..{to}"}})
elif rc!=0 or ok<to-fr:
    d["inconclusive"].append(f"miri exited {rc} with {ok}/{to-fr} executions completed and no diagnostic recognised: {tail[-400:]}")
json.dump(d,open(out,"w"))
PY
