#!/usr/bin/env python3
"""Regenerates /verif/MANIFEST.json from lib/plan.py and lib/claims.py."""
import json
import os
import sys

ROOT = os.path.dirname(os.path.dirname(os.path.abspath(__file__)))
sys.path.insert(0, os.path.join(ROOT, "lib"))
from plan import PLAN, LEVEL  # noqa: E402
from claims import CLAIMS, NOT_APPLICABLE, HOOK_COMMITS  # noqa: E402

checks = []
for prop in sorted(PLAN):
    c = CLAIMS[prop]
    checks.append({
        "property_id": prop,
        "quick_cmd": f"./check {prop} --tier quick",
        "thorough_cmd": f"./check {prop} --tier thorough",
        "evidence_file": f"/verif/evidence/{prop}.json",
        "replay_cmd_template": f"./check {prop} --replay {{path}}",
        "engine": c.get("engine", "ccmon"),
        "level_claimed": {"category": LEVEL[prop], "text": c["text"], "design_ref": c["design_ref"]},
        "level_note": c["note"],
        "technique": c["technique"],
    })

manifest = {
    "version": 1,
    "setup_cmd": "./setup.sh",
    "hooks": {
        "guard": "cargo feature verif-hooks (off by default)",
        "enable": "the harness depends on /repo by path with features = [\"verif-hooks\"] (harness feature `hooks`); "
                  "cargo build --profile checked --features hooks",
        "baseline_off_cmd": "cd /repo && cargo test --workspace --no-fail-fast --offline",
        "source_commits": HOOK_COMMITS,
        "add_only": True,
    },
    "engines": [
        {"name": "ccmon", "path": "/verif/harness", "serves_properties": sorted(PLAN),
         "kind_free_text": "Rust harness linked against /repo's working tree: lock-step reference model + independent wire "
                           "reader + fault enumerators + counting allocator + lock/step/failpoint hooks; ASan/TSan/Miri/valgrind "
                           "builds of the same workloads in the thorough tier"},
    ],
    "checks": checks,
    "not_applicable": [{"property_id": p, "reason": r} for p, r in sorted(NOT_APPLICABLE.items()) if p not in PLAN],
    "notes": "Technique family: runtime monitoring and sanitizers. exit 0 held / exit 1 VIOLATION / exit 2 INCONCLUSIVE "
             "(never with a VIOLATION line). Known findings: /verif/known_findings.json. See DESIGN.md.",
}
with open(os.path.join(ROOT, "MANIFEST.json"), "w") as f:
    json.dump(manifest, f, indent=1)
print(f"{len(checks)} checks, {len(manifest['not_applicable'])} not claimed")
