#!/bin/sh
# How /verif/golden/{A,B}/golden.json were produced (once, from the PINNED release, commit 8f3c295).
# Not run by any check. Needs a scratch worktree of the pinned commit and a copy of the harness without the hooks feature.
set -e
git -C /repo worktree add /tmp/pinned 8f3c295
cp /repo/Cargo.lock /tmp/pinned/
rm -rf /tmp/golden-h && cp -r /verif/harness /tmp/golden-h && cd /tmp/golden-h
sed -i 's#path = "/repo"#path = "/tmp/pinned"#; /^hooks = /d' Cargo.toml
CARGO_TARGET_DIR=/tmp/golden-h/tA cargo build --offline --release
CARGO_TARGET_DIR=/tmp/golden-h/tB cargo build --offline --release --no-default-features --features cfg-b
mkdir -p /verif/golden/A /verif/golden/B
tA/release/ccmon golden-gen /verif/golden/A/golden.json
tB/release/ccmon golden-gen /verif/golden/B/golden.json
git -C /repo worktree remove --force /tmp/pinned
rm -rf /tmp/golden-h
