#!/bin/bash
# Verifies a seeded change produced by a sub-agent, in a fresh scratch worktree, then stores it under /verif/seeded/<name>/.
# usage: lib/verify_seed.sh <source dir containing patch.diff demo.rs meta.json> <name>
set -u
SRC=$1; NAME=$2
WT=/tmp/vseed/$NAME
export CARGO_NET_OFFLINE=true CARGO_TARGET_DIR=$WT/target RUST_BACKTRACE=0
rm -rf $WT; mkdir -p /tmp/vseed
git -C /repo worktree add -q $WT HEAD || exit 1
cp /repo/Cargo.lock $WT/
mkdir -p $WT/tests && cp $SRC/demo.rs $WT/tests/seed_demo.rs
cd $WT
R=()
cargo test --offline --features test-utils --test seed_demo >/tmp/vseed/$NAME.demo0.log 2>&1; R+=("demo without patch: exit $?")
D0=$?
if ! git apply $SRC/patch.diff; then echo "PATCH DOES NOT APPLY"; git -C /repo worktree remove --force $WT; exit 1; fi
mv tests/seed_demo.rs /tmp/vseed/$NAME.seed_demo.rs
cargo test --workspace --no-fail-fast --offline >/tmp/vseed/$NAME.suite.log 2>&1; S=$?
PASSED=$(grep -E "^test result" /tmp/vseed/$NAME.suite.log | head -1)
cargo build --offline --no-default-features --features p-256,mlkem-768 >/tmp/vseed/$NAME.buildB.log 2>&1; B=$?
cargo build --offline --features verif-hooks >/tmp/vseed/$NAME.buildH.log 2>&1; H=$?
mv /tmp/vseed/$NAME.seed_demo.rs tests/seed_demo.rs
cargo test --offline --features test-utils --test seed_demo >/tmp/vseed/$NAME.demo1.log 2>&1; D1=$?
D0=$(grep -c "test result: ok" /tmp/vseed/$NAME.demo0.log)
echo "$NAME: demo-without-patch-ok=$D0 suite-exit=$S ($PASSED) buildB=$B buildHooks=$H demo-with-patch-exit=$D1"
OK=0
if [ "$D0" -ge 1 ] && [ $S -eq 0 ] && [ $B -eq 0 ] && [ $H -eq 0 ] && [ $D1 -ne 0 ]; then OK=1; fi
cd /verif
git -C /repo worktree remove --force $WT
if [ $OK -eq 1 ]; then
  mkdir -p /verif/seeded/$NAME
  cp $SRC/patch.diff $SRC/demo.rs /verif/seeded/$NAME/
  python3 - "$SRC/meta.json" "/verif/seeded/$NAME/meta.json" "$PASSED" <<'PY'
import json,sys
m=json.load(open(sys.argv[1]))
m["verified_by_me"]={"scratch_worktree":"fresh worktree of /repo HEAD under /tmp/vseed (removed afterwards)",
  "demo_without_patch":"passes","existing_suite_with_patch":sys.argv[3],"builds":"default, p-256+mlkem-768, verif-hooks",
  "demo_with_patch":"fails"}
json.dump(m,open(sys.argv[2],"w"),indent=1)
PY
  echo "KEPT /verif/seeded/$NAME"
else
  echo "REJECTED $NAME (see /tmp/vseed/$NAME.*.log)"
fi
