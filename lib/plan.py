"""Per-property plan: which monitors run, on which build, with which bounds."""


def hist(config, max_h, budget):
    return {"monitor": "hist", "config": config, "args": ["--max", max_h, "--budget-s", budget, "--threads", 16]}


def mon(name, configs=("A",), args=()):
    return [{"monitor": name, "config": c, "args": list(args)} for c in configs]


def both(quick, thorough):
    """History monitor on config A (quick) / A and B (thorough)."""
    return {
        "quick": [hist("A", *quick), hist("B", max(quick[0] // 3, 16), max(quick[1] // 2, 10))],
        "thorough": [hist("A", *thorough), hist("B", *thorough)],
    }


PLAN = {
    "C01": {"quick": both((160, 40), (2400, 420))["quick"] + [dict(hist("A", 300, 30), args=["--max", 300, "--budget-s", 30, "--threads", 16, "--profile", "lifecycle"])] + mon("bigids", ("A", "B")),
            "thorough": both((160, 40), (2400, 420))["thorough"] + [dict(hist("A", 6000, 300), args=["--max", 6000, "--budget-s", 300, "--threads", 16, "--profile", "lifecycle"]),
                                                                     dict(hist("B", 6000, 300), args=["--max", 6000, "--budget-s", 300, "--threads", 16, "--profile", "lifecycle"])] + mon("bigids", ("A", "B"))},
    "C02": {"quick": both((160, 40), (2400, 420))["quick"] + [dict(hist("A", 300, 30), args=["--max", 300, "--budget-s", 30, "--threads", 16, "--profile", "lifecycle"])] + mon("bigids", ("A", "B")),
            "thorough": both((160, 40), (2400, 420))["thorough"] + [dict(hist("A", 6000, 300), args=["--max", 6000, "--budget-s", 300, "--threads", 16, "--profile", "lifecycle"]),
                                                                     dict(hist("B", 6000, 300), args=["--max", 6000, "--budget-s", 300, "--threads", 16, "--profile", "lifecycle"])] + mon("bigids", ("A", "B"))},
    "C03": both((600, 40), (12000, 420)),
    "C04": both((500, 40), (10000, 420)),
    "C05": both((500, 40), (10000, 420)),
    "C06": both((800, 40), (16000, 420)),
    "C09": both((800, 40), (16000, 420)),
    "C11": both((500, 40), (10000, 420)),
    "C13": {k: v + mon("golden", ("A", "B")) for k, v in both((600, 40), (12000, 420)).items()},
    "C18": both((400, 40), (8000, 420)),
}



PLAN.update({
    "C07": {"quick": mon("c07", ("A",)),
            "thorough": mon("c07", ("A", "B")) + [{"monitor": "c07", "config": "A", "flavour": "asan", "args": []}]},
    "C08": {"quick": mon("c08", ("A", "B")), "thorough": mon("c08", ("A", "B"))},
    "C12": {"quick": mon("c12", ("A",)), "thorough": mon("c12", ("A", "B"))},
    "C15": {"quick": mon("c15", ("A",)), "thorough": mon("c15", ("A",))},
    "C16": {"quick": mon("c16", ("A",)), "thorough": mon("c16", ("A", "B"))},
    "C17": {"quick": mon("c17", ("A", "B")), "thorough": mon("c17", ("A", "B"))},
    "C10": {
        "quick": [hist("A", 800, 40), hist("B", 200, 20)] + mon("c10fp", ("A", "B")),
        "thorough": [hist("A", 16000, 420), hist("B", 16000, 420)] + mon("c10fp", ("A", "B")),
    },
    "C14": {"quick": mon("c14", ("A", "B")),
            "thorough": mon("c14", ("A", "B")) + [{"monitor": "c14", "config": "A", "flavour": "asan", "args": ["--scratch", "/verif/.build/out/c14-asan"]},
                                                  {"kind": "script", "script": "lib/valgrind_c14.sh", "config": "A", "timeout": 3000}]},
    "C19": {
        "quick": mon("c19", ("A",)),
        "thorough": mon("c19", ("A", "B"))
        + [{"monitor": "c19", "config": "A", "flavour": "tsan", "args": ["--budget-s", 60]},
           {"kind": "script", "script": "lib/miri_c19.sh", "config": "A", "timeout": 6000}],
    },
})

LEVEL = {
    "C01": "exploration", "C02": "exploration", "C03": "exploration", "C04": "exploration",
    "C05": "exploration", "C06": "exploration", "C07": "fault_enumeration", "C08": "fault_enumeration",
    "C09": "exploration", "C10": "fault_enumeration", "C11": "exploration", "C12": "exploration",
    "C13": "exploration", "C14": "fault_enumeration", "C15": "exploration", "C16": "exploration",
    "C17": "exploration", "C18": "exploration", "C19": "exploration",
}

_HIST_EV = ["decaps_evaluated", "msk_wire_checks", "mpk_wire_checks", "usk_wire_checks", "calls_ok",
            "calls_err_as_documented", "failed_call_state_unchanged", "roundtrips_ok"]

RULES = {
    "C01": {
        "rule": "random structures (1-3 dims, anarchy/hierarchy, 1-4 attrs, random hints), 4-8 random user policies and "
                "random encryption policies printed with random spacing/parentheses, plus every right of Omega as a "
                "single-conjunction target; every (key, encapsulation) pair is decapsulated. Distinct = hash of "
                "(structure shape, user-policy shape, encryption-policy shape, cover reasons); non-trivial = a must-open "
                "pair whose cover goes through a lower hierarchical attribute, an unmentioned dimension or '*'. Second workload: "
                "lifecycle histories (rekey/prune/disable/update/refresh) in which keys generated afterwards and encapsulations "
                "under the newest public key are judged by the same cover relation. Third: attributes planted at ids needing "
                "2-3 LEB128 bytes and differing by 128/256 (full key x encapsulation table, right names compared with an "
                "independent LEB128 encoding).",
        "evaluation_counters": ["decaps_evaluated", "usk_wire_checks"],
        "min_evaluations": {"quick": 2000, "thorough": 20000},
    },
    "C02": {
        "rule": "same executions as C01, other half of the table. Distinct = hash of (structure shape, policy shapes, "
                "refusal reasons); non-trivial = a must-not-open pair refused because of hierarchy direction (lower key, "
                "higher target) or a sibling attribute. Also: rights held by the serialized key = model's complementary space.",
        "evaluation_counters": ["decaps_evaluated", "usk_wire_checks"],
        "min_evaluations": {"quick": 2000, "thorough": 20000},
    },
    "C03": {
        "rule": "histories of 30-60 operations mixing add/del dimension, add(after)/delete/rename/disable attribute, update, "
                "keygen, refresh, encaps under any earlier public key, decaps matrix incl. byte-copies of every key refreshed "
                "with either flag. Distinct = hash of (structure shape, operation-kind sequence); non-trivial = contains an "
                "add after a delete or rename and an encapsulation made afterwards judged against a key generated before.",
        "evaluation_counters": _HIST_EV,
        "min_evaluations": {"quick": 5000, "thorough": 50000},
    },
    "C04": {
        "rule": "histories of 30-55 operations: rekey over arbitrary policies, refresh(keep/no keep), keygen, encaps under any "
                "earlier public key, decaps matrix; no structure edits. Non-trivial = some key has chains of >= 2 different "
                "lengths at a decaps matrix (partial rekey). Distinct = hash of (structure shape, operation-kind sequence).",
        "evaluation_counters": _HIST_EV,
        "min_evaluations": {"quick": 5000, "thorough": 50000},
    },
    "C05": {
        "rule": "C04 mix + prune + delete attribute/dimension + update; matrix also on byte-copies refreshed with either "
                "flag. Non-trivial = a refresh of a key whose newest secret for some right had itself been pruned/removed "
                "(no anchor for the merge). Distinct = hash of (structure shape, operation-kind sequence).",
        "evaluation_counters": _HIST_EV,
        "min_evaluations": {"quick": 5000, "thorough": 50000},
    },
    "C06": {
        "rule": "disable/update/rekey/prune/keygen/refresh/msk round-trip/msk.mpk() histories with every right of Omega "
                "encapsulated first; after each MPK-producing call the activation bytes, published rights and encaps "
                "Ok/Err are compared with the model. Non-trivial = >= 2 MPK-producing operations after a disable took "
                "effect. Distinct = hash of (structure shape, operation-kind sequence).",
        "evaluation_counters": _HIST_EV,
        "min_evaluations": {"quick": 3000, "thorough": 30000},
    },
    "C09": {
        "rule": "all operations with 25% deliberately invalid arguments in every state the generator reaches; each call's "
                "Ok/Err is compared with the documented list. Distinct non-trivial = distinct (operation kind, documented "
                "error class or success, structure-vs-secrets sync state) triples observed.",
        "evaluation_counters": ["calls_ok", "calls_err_as_documented", "shadow_refresh"],
        "min_evaluations": {"quick": 5000, "thorough": 50000},
    },
    "C11": {
        "rule": "structures with random hints (all classic / all hybrid / mixed), every right of Omega encapsulated, then "
                "rekey/refresh/round-trip/encaps histories; flavour bytes of master/public/user secrets and of each "
                "encapsulation are compared with the model. Non-trivial = history with a mixed-flavour (classic-mode) "
                "multi-target encapsulation or both hybridized and classic encapsulations.",
        "evaluation_counters": _HIST_EV,
        "min_evaluations": {"quick": 3000, "thorough": 30000},
    },
    "C13": {
        "rule": "lifecycle histories (edits, rekey, prune, refresh, recaps; unicode names; random hints) with a round-trip "
                "injected at random steps (MSK, MPK, USK, XEnc, structure): length()==bytes, deserialize(serialize(x))==x, "
                "the independent wire reader consumes the bytes exactly, and the history continues with the deserialized "
                "object. Non-trivial = >= 2 injections. Distinct = hash of (structure shape, operation-kind sequence). Plus golden "
                "vectors serialized by the pinned release (MSK, 4 MPKs, 5 USKs, 11 encapsulations, headers; both configs): loaded, "
                "the recorded decapsulation table replayed, then refreshed / edited / re-keyed with the current tree.",
        "evaluation_counters": _HIST_EV + ["golden_decaps", "golden_objects_loaded"],
        "min_evaluations": {"quick": 3000, "thorough": 30000},
    },
    "C18": {
        "rule": "encaps (1-4 targets) under any earlier public key, then rekey/prune/disable/delete+update, then recaps with "
                "the current public key, refresh, matrix (incl. refreshed byte-copies). Non-trivial = history with a "
                "successful recaps and (a recaps that dropped some targets or a recaps correctly refused).",
        "evaluation_counters": _HIST_EV + ["recaps_ok", "recaps_refused_as_expected"],
        "min_evaluations": {"quick": 3000, "thorough": 30000},
    },
}

RULES.update({
    "C07": {
        "rule": "bases: classic 1/3-target, hybridized 1/2-target, mixed-hint 2-target, broadcast; keys: authorized for each, "
                "unauthorized, '*'. Mutations: EVERY bit of the serialized encapsulation; permute/drop/duplicate entries; swap F "
                "or ML-KEM ciphertexts between entries; splice tag/traps/entries with same- and other-policy encapsulations; "
                "drop/append/permute traps; flavour byte raw and resized; PKE: every bit and every truncation of nonce||ct||tag, "
                "KEM part swapped; header: every bit of the encrypted metadata, swaps. A mutant that deserializes to an object "
                "equal to the original is 'equivalent encoding' and not judged. Distinct non-trivial = distinct (base, operator "
                "or byte region) whose mutant deserialized to a different object and was decapsulated by every key.",
        "evaluation_counters": ["decaps_of_mutants", "pke_mutants", "header_mutants"],
        "min_evaluations": {"quick": 50000, "thorough": 100000},
        "exhaustive": {"quick": True, "thorough": True},
    },
    "C08": {
        "rule": "catalogue of named tamper operators applied through the independent wire writer to issued keys (2-9 rights, "
                "1-3 revisions, classic/hybridized/mixed): remove/duplicate/rename/reorder chains, move/copy/drop/duplicate/"
                "reorder secrets, flavour changes, re-framings of the MAC byte stream (merge/split on the empty right, shift "
                "the right-name boundary by k bytes, re-flag a hybridized secret as classic run), bit flips of id/secrets/"
                "signature, stripped signature, splices of two issued keys, key of another master key, id unknown to an older "
                "serialization. Distinct non-trivial = distinct (operator, flavour) pairs whose tampered key deserialized to "
                "a non-issued object and was submitted to refresh with both flags.",
        "evaluation_counters": ["refresh_attempts_on_non_issued_keys"],
        "min_evaluations": {"quick": 20000, "thorough": 100000},
    },
    "C12": {
        "rule": "plaintext lengths 0..80,255,256,4095,4096,65537; metadata absent/empty/1..40/1000; AAD absent/empty/x/y/33B in all "
                "5x5 (generate, decrypt) pairs; keys authorized/lower/unauthorized/'*'; classic and hybridized; every truncation "
                "and bit flips of ciphertext and encrypted metadata; objects round-tripped through bytes before use. Distinct "
                "non-trivial = distinct (layer, flavour, length class, AAD pair, authorization) combinations evaluated.",
        "evaluation_counters": ["pke_decryptions", "header_decryptions", "pke_truncations", "pke_bitflips", "header_truncations", "header_bitflips"],
        "min_evaluations": {"quick": 20000, "thorough": 100000},
    },
    "C15": {
        "rule": "totality: ALL strings over {A : & | ( ) space * e-acute CJK emoji} up to length 6 (quick) / 7 (thorough) plus random "
                "strings of 8-48 symbols; every accepted string's DNF is checked against its own tree under all assignments. "
                "Faithfulness: random formulas (<= 8 leaves, names with inner spaces and multi-byte characters, half of them "
                "ASCII-only) printed with random spacing/redundant parentheses, parsed, compared with the source under all "
                "assignments (tree and DNF), names compared exactly. Distinct non-trivial = distinct formula shapes mixing AND "
                "and OR (precedence matters).",
        "evaluation_counters": ["strings_parsed", "formulas"],
        "min_evaluations": {"quick": 1000000, "thorough": 10000000},
        "exhaustive": {"quick": True, "thorough": True},
    },
    "C16": {
        "rule": "N identical calls (64k quick / 400k thorough per configuration) of encaps, PKE encrypt, header generate, keygen, rekey on 4 "
                "instances each shared by 4 threads; every value that must be fresh goes to a hash set (secrets, tags, traps, "
                "F, ML-KEM ciphertexts, PKE/header nonces, user ids, published H/ek after each rekey); nonce bit positions must "
                "all vary; the caller's header secret must not decrypt the metadata. Distinct non-trivial = (kind of value, order "
                "of magnitude observed).",
        "evaluation_counters": ["values_observed"],
        "min_evaluations": {"quick": 100000, "thorough": 1000000},
    },
    "C17": {
        "rule": "histories of keygen / refresh (either flag) / MSK round trip / rekey / USK round trip with up to 24 (quick) / 60 "
                "(thorough) users; after each step, for every live key: id registered, distinct, sum a_i*t_i = s and P_i = t_i*G "
                "recomputed in the harness on the curve library, usk.ps = mpk.tpk = [P_i]; a key is also refreshed against an "
                "older serialization of the master key that does not know its id (must be refused). Distinct non-trivial = "
                "(number of users, operation sequence) with >= 2 users and an unknown-id attempt.",
        "evaluation_counters": ["relations_checked", "unknown_id_refresh_attempts"],
        "min_evaluations": {"quick": 20000, "thorough": 200000},
    },
})

RULES.update({
    "C10": {
        "rule": "(a) histories with 40% deliberately invalid arguments: after every call that returns an error the canonical "
                "wire form of the master key (and the bytes of the user key) is compared with the snapshot taken before; "
                "(b) failpoints: for update/rekey/keygen/refresh in random states, the fallible steps of the call are counted "
                "on a twin state, then the call is re-run once per position k with the k-th step failing. Distinct non-trivial "
                "= distinct (operation, error cause / failing-step position class, state description).",
        "evaluation_counters": ["failed_call_state_unchanged", "injected_failures", "calls_err_as_documented"],
        "min_evaluations": {"quick": 2000, "thorough": 20000},
    },
    "C14": {
        "rule": "11 base objects (2 encapsulations, 2 headers, cleartext header, 2 user keys with 1-3 revisions, 2 public keys, "
                "master key with revisions/disabled right/users, structure; both flavours, a non-ASCII dimension name): every "
                "truncation; every byte x {^01,^80,00,FF,+1}; every LEB128 count/length/flag field (located by the independent "
                "wire reader) x {0,1,127,128,2^16,2^32-1,2^32,2^63-1,2^63,2^64-1} re-encoded and in place; random strings; every "
                "mutant that parses is used (decaps both ways, header decrypt, accessors, re-serialization). Run in isolated "
                "worker processes with a counting allocator, an iterator-step ceiling and CPU clocks. Distinct non-trivial = "
                "distinct (type, base, operator class) executed.",
        "evaluation_counters": ["mutants_run"],
        "min_evaluations": {"quick": 50000, "thorough": 200000},
        "exhaustive": {"quick": False, "thorough": True},
    },
    "C19": {
        "rule": "runs of 2/3/4/8/16 threads x ~2000 operations on one shared instance with seeded yields/sleeps before every "
                "lock attempt; every result compared with its sequential meaning; cross-thread freshness sets; deadlock = no "
                "call returns for 20 s while process CPU time stands still. Distinct non-trivial = distinct sequences of other "
                "threads' lock attempts observed inside a double-lock window (encaps..relock of encrypt / header generate).",
        "evaluation_counters": ["ops", "decaps_authorized_ok", "decaps_unauthorized_refused"],
        "min_evaluations": {"quick": 3000, "thorough": 30000},
    },
})

ASSUMPTIONS = {
    "*": [
        "oracle = reference model in /verif/harness/src/model.rs written from README/CHANGELOG/doc comments",
        "crypto randomness comes from the OS; verdicts are functions of the generated history only",
        "build profile: optimised with overflow-checks and debug-assertions on",
    ],
}
